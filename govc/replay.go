package main

// tryReplay: counterexample extraction and replay against the real code (see replay_gen.go when present).
func (rc *runCtx) tryReplay(o *Obligation, rp map[string]interface{}, base string) bool {
	return false
}
