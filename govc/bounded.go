package main

// Bounded stand-ins (labelled "bounded", never counted as proved): exhaustive/sampled runs of real functions
// that the verifier cannot bring under contract, injected with `go test -overlay` (nothing is written to the repo).

import (
	"bytes"
	"context"
	"encoding/json"
	"fmt"
	"os"
	"os/exec"
	"path/filepath"
	"regexp"
	"strings"
	"time"
)

type boundedResult struct {
	Name       string   `json:"name"`
	Bound      string   `json:"bound"`
	Cases      int      `json:"cases"`
	Exhaustive bool     `json:"exhaustive_within_bound"`
	Failures   []string `json:"failures"`
	Output     string   `json:"summary_line"`
	WallS      float64  `json:"wall_s"`
	OK         bool     `json:"ok"`
	Cmd        string   `json:"cmd"`
}

var boundedFor = map[string][]string{
	"C02": {"c02_graph_test.go"},
	"C15": {"c02_graph_test.go"},
	"C12": {"c12_sort_test.go"},
}

type boundedSpec struct {
	run, quickBound, thoroughBound string
	quickEnv, thoroughEnv          []string
}

var boundedSpecs = map[string]boundedSpec{
	"c02_graph_test.go": {"TestVerifBoundedGraph", "all directed graphs (self-loops included) on n <= 4 named tasks and all labelled DAGs on 5 named tasks, exhaustive",
		"all directed graphs on n <= 4 named tasks and all labelled DAGs on 5 and 6 named tasks (3.8 million), exhaustive; 300000 pseudo-random graphs each for n = 5 and n = 6 (cyclic ones included)", []string{"VERIF_BOUND_N=4", "VERIF_BOUND_DAGN=5"}, []string{"VERIF_BOUND_N=6", "VERIF_BOUND_DAGN=6", "VERIF_BOUND_SAMPLE=300000"}},
	"c12_sort_test.go": {"TestVerifBoundedSort", "all sequences of creation times from {0..n-1} of length n <= 6, exhaustive (ties included)",
		"exhaustive for length n <= 7; 200000 pseudo-random sequences of length 13..64 (pdqsort path)", []string{"VERIF_BOUND_N=6"}, []string{"VERIF_BOUND_N=7", "VERIF_BOUND_SAMPLE=200000"}},
}

func (rc *runCtx) runBounded(prop string) []boundedResult {
	var out []boundedResult
	for _, f := range boundedFor[prop] {
		src := filepath.Join(rc.verif, "bounded", f)
		if _, err := os.Stat(src); err != nil {
			continue
		}
		ov := filepath.Join(rc.scratch, "ov_"+f+".json")
		target := filepath.Join(rc.w.Repo, "zz_verif_bounded_test.go")
		b, _ := json.Marshal(map[string]interface{}{"Replace": map[string]string{target: src}})
		os.WriteFile(ov, b, 0644)
		env := append(os.Environ(), "GOFLAGS=-mod=mod", "GOPROXY=off", "GOSUMDB=off", "GOTOOLCHAIN=local", fmt.Sprintf("VERIF_SEED=%d", rc.seed))
		bs := boundedSpecs[f]
		bound := bs.quickBound
		if rc.tier == "thorough" {
			env = append(env, bs.thoroughEnv...)
			bound = bs.thoroughBound
		} else {
			env = append(env, bs.quickEnv...)
		}
		ctx, cancel := context.WithTimeout(context.Background(), 10*time.Minute)
		cmd := exec.CommandContext(ctx, "go", "test", "-overlay", ov, "-vet=off", "-count=1", "-timeout", "540s", "-v", "-run", bs.run, ".")
		cmd.Dir = rc.w.Repo
		cmd.Env = env
		var buf bytes.Buffer
		cmd.Stdout = &buf
		cmd.Stderr = &buf
		t0 := time.Now()
		err := cmd.Run()
		cancel()
		res := boundedResult{Name: strings.TrimSuffix(f, "_test.go"), Bound: bound, WallS: time.Since(t0).Seconds(), Exhaustive: rc.tier != "thorough",
			Cmd: "go test -overlay <zz_verif_bounded_test.go -> /verif/bounded/" + f + "> -run " + bs.run + " ."}
		re := regexp.MustCompile(`BOUNDED maxN=\d+ (?:graphs|cases)=(\d+) .*`)
		for _, l := range strings.Split(buf.String(), "\n") {
			if m := re.FindStringSubmatch(l); m != nil {
				fmt.Sscanf(m[1], "%d", &res.Cases)
				res.Output = l
			}
			if strings.HasPrefix(l, "BOUNDED-FAIL ") {
				res.Failures = append(res.Failures, strings.TrimPrefix(l, "BOUNDED-FAIL "))
			}
		}
		res.OK = err == nil && res.Cases > 0 && len(res.Failures) == 0
		if !res.OK && len(res.Failures) == 0 {
			tail := buf.String()
			if len(tail) > 1500 {
				tail = tail[len(tail)-1500:]
			}
			res.Failures = append(res.Failures, "harness did not complete: "+tail)
		}
		if res.Failures == nil {
			res.Failures = []string{}
		}
		out = append(out, res)
	}
	return out
}
