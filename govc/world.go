package main

import (
	"fmt"
	"go/types"
	"os"
	"sort"
	"strings"

	"golang.org/x/tools/go/packages"
	"golang.org/x/tools/go/ssa"
	"golang.org/x/tools/go/ssa/ssautil"
)

// World is everything loaded once per run: the typed packages of the repository under
// verification, their SSA, and the contracts.
type World struct {
	Repo    string
	ModPath string
	Pkgs    map[string]*packages.Package
	Prog    *ssa.Program
	SSAPkgs map[string]*ssa.Package
	C       *Contracts
	Funcs   map[string]*ssa.Function // key pkgpath::RelString (incl. anonymous functions)
	LoadS   float64
	lock    *lockCfg
}

func readModPath(repo string) string {
	data, err := os.ReadFile(repo + "/go.mod")
	if err != nil {
		return ""
	}
	for _, l := range strings.Split(string(data), "\n") {
		l = strings.TrimSpace(l)
		if strings.HasPrefix(l, "module ") {
			return strings.TrimSpace(strings.TrimPrefix(l, "module "))
		}
	}
	return ""
}

func LoadWorld(repo string) (*World, error) {
	w := &World{Repo: repo, Pkgs: map[string]*packages.Package{}, SSAPkgs: map[string]*ssa.Package{}, Funcs: map[string]*ssa.Function{}}
	w.ModPath = readModPath(repo)
	if w.ModPath == "" {
		return nil, fmt.Errorf("cannot read module path of %s", repo)
	}
	env := append(os.Environ(), "GOFLAGS=-mod=mod", "GOPROXY=off", "GOSUMDB=off", "GOTOOLCHAIN=local")
	cfg := &packages.Config{Mode: packages.LoadAllSyntax, Dir: repo, BuildFlags: []string{"-tags=verif"}, Env: env}
	pkgs, err := packages.Load(cfg, "./...")
	if err != nil {
		return nil, err
	}
	nerr := 0
	packages.Visit(pkgs, nil, func(p *packages.Package) {
		if strings.HasPrefix(p.PkgPath, w.ModPath) {
			for _, e := range p.Errors {
				fmt.Fprintf(os.Stderr, "load error: %v\n", e)
				nerr++
			}
		}
	})
	if nerr > 0 {
		return nil, fmt.Errorf("%d errors loading packages of %s (does the tree compile?)", nerr, repo)
	}
	prog, spkgs := ssautil.AllPackages(pkgs, ssa.GlobalDebug)
	prog.Build()
	w.Prog = prog
	for i, p := range pkgs {
		w.Pkgs[p.PkgPath] = p
		if spkgs[i] != nil {
			w.SSAPkgs[p.PkgPath] = spkgs[i]
		}
	}
	for fn := range ssautil.AllFunctions(prog) {
		if fn.Pkg == nil && fn.Parent() == nil {
			continue
		}
		pk := fnPkg(fn)
		if pk == nil || !strings.HasPrefix(pk.Pkg.Path(), w.ModPath) {
			continue
		}
		w.Funcs[pkgKey(pk.Pkg.Path(), fnRelName(fn))] = fn
	}
	c, err := LoadContracts(repo, w.ModPath)
	if err != nil {
		return nil, err
	}
	w.C = c
	return w, nil
}

func fnPkg(fn *ssa.Function) *ssa.Package {
	for f := fn; f != nil; f = f.Parent() {
		if f.Pkg != nil {
			return f.Pkg
		}
	}
	return nil
}

// fnRelName is the name used in contract files: (*T).m, (T).m, f, f$1, (*T).m$1
func fnRelName(fn *ssa.Function) string {
	pk := fnPkg(fn)
	if pk == nil {
		return fn.String()
	}
	return fn.RelString(pk.Pkg)
}

func (w *World) FuncNamesIn(pkg string) []string {
	var out []string
	for k := range w.Funcs {
		if strings.HasPrefix(k, pkg+"::") {
			out = append(out, strings.TrimPrefix(k, pkg+"::"))
		}
	}
	sort.Strings(out)
	return out
}

func (w *World) isLocalPkg(p *types.Package) bool {
	return p != nil && strings.HasPrefix(p.Path(), w.ModPath)
}
