package main

// SSA -> verification conditions. One FnCtx per function under verification.

import (
	"fmt"
	"go/constant"
	"go/token"
	"go/types"
	"os"
	"path/filepath"
	"runtime"
	"sort"
	"strings"
	"sync"

	"golang.org/x/tools/go/ssa"
)

type Obligation struct {
	Name         string
	Fn           string
	Kind         string
	Prefix       int    // number of commands of FnCtx.cmds that precede the goal
	PrefixBefore int    // canary2: prefix before the call
	Goal         string // must hold; the query asserts its negation
	Src          string
	Ctx          *FnCtx
	Cases        []string // human description of the aggregated sites
	Result       *SolveResult
	Known        string // known-finding text if listed
}

type retSite struct {
	guard string
	st    *State
	res   []*Val
	block *ssa.BasicBlock
}

type closureInfo struct {
	Fn       *ssa.Function
	Bindings []*Val
	Bound    *Val // for $bound method closures: receiver
}

type deferRec struct {
	instr *ssa.Defer
	block *ssa.BasicBlock
}

type accessSite struct {
	guard string
	cond  string
	desc  string
}

type FnCtx struct {
	W      *World
	Fn     *ssa.Function
	Spec   *FuncSpec
	Pkg    *types.Package
	Short  string
	cmds   []string
	obls   []*Obligation
	vals   map[ssa.Value]*Val
	n      int
	entry  *State
	end    map[*ssa.BasicBlock]*State
	reach  map[*ssa.BasicBlock]string
	edges  map[[2]int]string
	strs   map[string]string
	strOrd []string
	notes  map[string]bool
	decl   map[string]bool
	comps  map[string]string // registry: comp name -> sort
	rets   []retSite
	guard  string
	curBlk *ssa.BasicBlock
	defers []deferRec
	params map[string]*Val
	genN   int
	loops  map[*ssa.BasicBlock]*loopInfo
	loopOf []*loopInfo
	// aggregated obligations
	lockReads      []accessSite
	lockWrites     []accessSite
	safety         []accessSite
	callCount      map[string]int
	goCount        int
	rangeSeen      map[*ssa.Range]Comp
	unsupported    []string
	lockSweep      bool
	allocEntry     string
	ghostCounts    map[string]int
	cntFuncs       map[string]*cntInfo
	compRef        map[string]bool
	entryAssumes   []*Clause
	errGlobals     []string
	lemmaVCs       []lemmaVC
	modTab         map[string]*modEntry
	assumingPost   bool
	inGuardedDefer bool
	specErrors     []string
	callbackCalls  []string
	externUsed     map[string]bool
	atsUsed        map[*AtSpec]bool
	assumesUsed    []string
	lemmasUsed     map[string]bool
	afterFuncs     []*closureInfo
	uuidFresh      []string
	genPrev        map[int]*State // generation -> state before an interference havoc (havocShared)
	interfered     bool           // an interference havoc (havocShared) occurs in this function
	guardMu        sync.Mutex
	cmdGuard       []string
	guardDeps      map[string][]string
}

type loopInfo struct {
	header   *ssa.BasicBlock
	ordinal  int
	blocks   map[*ssa.BasicBlock]bool
	back     []*ssa.BasicBlock // sources of back edges
	entryEnv map[string]*Val
	phiFresh map[*ssa.Phi]*Val
	havocked []Comp
	preState *State
}

func (tr *FnCtx) fresh(base string) string {
	tr.n++
	return fmt.Sprintf("%s!%d", base, tr.n)
}

func (tr *FnCtx) emit(cmd string) { tr.cmds = append(tr.cmds, cmd) }

func (tr *FnCtx) declare(name, sort string) string {
	s := sym(name)
	if !tr.decl[s] {
		tr.decl[s] = true
		tr.emit(fmt.Sprintf("(declare-const %s %s)", s, sort))
	}
	return s
}

func (tr *FnCtx) define(name, sort, term string) string {
	s := sym(name)
	tr.decl[s] = true
	if strings.HasPrefix(sort, "(Array") && strings.HasPrefix(term, "(ite ") {
		// keep conditionals out of array-valued definitions: they would end up inside quantifier patterns
		tr.emit(fmt.Sprintf("(declare-const %s %s)", s, sort))
		tr.emit(fmt.Sprintf("(assert (= %s %s))", s, term))
		return s
	}
	tr.emit(fmt.Sprintf("(define-fun %s () %s %s)", s, sort, term))
	return s
}

func (tr *FnCtx) freshConst(base, sort string) string {
	return tr.declare(tr.fresh(base), sort)
}

// assume adds a fact guarded by the current path condition.
func (tr *FnCtx) assume(fact string) {
	if fact == "true" {
		return
	}
	tr.emit("(assert " + implies(tr.guard, fact) + ")")
}

func (tr *FnCtx) assumeRaw(fact string) {
	if fact == "true" {
		return
	}
	tr.emit("(assert " + fact + ")")
}

func (tr *FnCtx) note(s string) {
	if tr.notes == nil {
		tr.notes = map[string]bool{}
	}
	tr.notes[s] = true
}

// oblige records an obligation at the current point and (as usual for assert) assumes it afterwards.
func (tr *FnCtx) oblige(name, kind, goal, src string) {
	g := implies(tr.guard, goal)
	if g == "true" {
		// still record as trivially discharged so that counts are honest
		tr.obls = append(tr.obls, &Obligation{Name: name, Fn: tr.Short, Kind: kind, Prefix: len(tr.cmds), Goal: "true", Src: src, Ctx: tr})
		return
	}
	// split conjunctions into separate queries (same name: all must pass); smaller goals are more stable
	parts := splitAnd(g)
	for _, pg := range parts {
		tr.obls = append(tr.obls, &Obligation{Name: name, Fn: tr.Short, Kind: kind, Prefix: len(tr.cmds), Goal: pg, Src: src, Ctx: tr})
	}
	tr.emit("(assert " + g + ")")
}

// ---------------------------------------------------------------- components

func (tr *FnCtx) regComp(c Comp) {
	if _, ok := tr.comps[c.Name]; !ok {
		tr.comps[c.Name] = c.Sort
	}
	if c.Ref {
		if tr.compRef == nil {
			tr.compRef = map[string]bool{}
		}
		tr.compRef[c.Name] = true
	}
}

func (tr *FnCtx) refAxiomLater(st *State, c Comp, s string) { tr.regComp(c) }

// refAxiom: heap well-formedness — a reference stored in an allocated cell points to an allocated object
// (Go is memory safe). alloc is the allocation counter of the state the symbol belongs to.
func (tr *FnCtx) refAxiom(st *State, c Comp, s string) {
	if !tr.compRef[c.Name] || st.Formal != nil {
		return
	}
	alloc := tr.cur(st, compAlloc)
	if strings.Contains(s, "@g") {
		alloc = tr.declare(fmt.Sprintf("$alloc@g%d", st.Gen), "Int")
	}
	switch {
	case strings.HasPrefix(c.Sort, "(Array Int (Array Int "):
		tr.emit(fmt.Sprintf("(assert (forall ((m Int) (k Int)) (! (=> (< m %s) (and (<= 0 (select (select %s m) k)) (< (select (select %s m) k) %s))) :pattern ((select (select %s m) k)))))", alloc, s, s, alloc, s))
	case strings.HasPrefix(c.Sort, "(Array Int "):
		tr.emit(fmt.Sprintf("(assert (forall ((x Int)) (! (=> (isold x %s) (isold (select %s x) %s)) :pattern ((select %s x)))))", alloc, s, alloc, s))
	}
}

func (tr *FnCtx) cur(st *State, c Comp) string {
	tr.regComp(c)
	if st.Formal != nil {
		if s, ok := st.Formal[c.Name]; ok {
			return s
		}
		s := fmt.Sprintf("fc%d", len(st.FormalOrder))
		st.Formal[c.Name] = s
		st.FormalOrder = append(st.FormalOrder, c.Name)
		return s
	}
	if s, ok := st.Comps[c.Name]; ok {
		return s
	}
	name := fmt.Sprintf("%s@g%d", c.Name, st.Gen)
	if tr.decl[sym(name)] {
		return sym(name)
	}
	s := tr.declare(name, c.Sort)
	tr.mapDefaultAxiom(st, c, s)
	tr.refAxiom(st, c, s)
	if prev := tr.genPrev[st.Gen]; prev != nil {
		tr.preserveUnpublished(prev, c, s)
	}
	return s
}

// preserveUnpublished: interference by other goroutines (havocShared) cannot touch objects this goroutine
// has not published, nor its own variable cells.
func (tr *FnCtx) preserveUnpublished(prev *State, c Comp, s string) {
	var cond string
	pub := tr.cur(prev, compPub)
	switch {
	case strings.HasPrefix(c.Name, "M."):
		cond = "(or (>= x 0) (not (select " + pub + " (elemB x))))"
	case strings.HasPrefix(c.Name, "F."), strings.HasPrefix(c.Name, "MD."), strings.HasPrefix(c.Name, "MV."):
		cond = "(not (select " + pub + " x))"
	default:
		return
	}
	o := tr.cur(prev, c)
	tr.emit(fmt.Sprintf("(assert (forall ((x Int)) (! (=> %s (= (select %s x) (select %s x))) :pattern ((select %s x)))))", cond, s, o, s))
}

// mapDefaultAxiom: map value components hold the zero value for absent keys (normal form of
// the representation; every operation of the model preserves it).
func (tr *FnCtx) mapDefaultAxiom(st *State, c Comp, s string) {
	if !strings.HasPrefix(c.Name, "MV.") {
		return
	}
	k := strings.Index(c.Name, "~")
	if k < 0 {
		return
	}
	dc := Comp{"MD." + c.Name[3:k], "(Array Int (Array Int Bool))", false}
	d := tr.cur(st, dc)
	z := zeroOf(strings.TrimSuffix(strings.TrimPrefix(c.Sort, "(Array Int (Array Int "), "))"))
	tr.emit(fmt.Sprintf("(assert (forall ((m Int) (k Int)) (! (=> (not (select (select %s m) k)) (= (select (select %s m) k) %s)) :pattern ((select (select %s m) k)))))", d, s, z, s))
}

func (tr *FnCtx) set(st *State, c Comp, term string) {
	tr.regComp(c)
	if term == tr.cur(st, c) {
		return
	}
	st.Comps[c.Name] = tr.define(tr.fresh(c.Name+"@"), c.Sort, term)
}

func (tr *FnCtx) havocComp(st *State, c Comp) string {
	tr.regComp(c)
	s := tr.freshConst(c.Name+"@h", c.Sort)
	st.Comps[c.Name] = s
	tr.mapDefaultAxiom(st, c, s)
	tr.refAxiom(st, c, s)
	return s
}

func (tr *FnCtx) havocAll(st *State) {
	if os.Getenv("VERIF_DEBUG_HAVOC") != "" {
		_, f1, l1, _ := runtime.Caller(1)
		_, f2, l2, _ := runtime.Caller(2)
		fmt.Fprintf(os.Stderr, "havocAll gen %d -> %d in %s from %s:%d <- %s:%d\n", st.Gen, tr.genN+1, tr.Short, filepath.Base(f1), l1, filepath.Base(f2), l2)
	}
	tr.genN++
	st.Gen = tr.genN
	st.Comps = map[string]string{}
	st.Unframed = true
	// ghost scalars keep a declared symbol too (fresh generation)
}

func elemSort(arr string) string {
	// "(Array Int X)" -> X
	s := strings.TrimPrefix(arr, "(Array Int ")
	return strings.TrimSuffix(s, ")")
}

var compAlloc = Comp{"$alloc", "Int", false}
var compPub = Comp{"$pub", "(Array Int Bool)", false}
var compHeld = Comp{"$held", "Int", false}
var compClock = Comp{"$clock", "Int", false}

// mergeStates joins several (edgeCondition, state) pairs.
func (tr *FnCtx) mergeStates(conds []string, sts []*State) *State {
	if len(sts) == 1 {
		return sts[0].clone()
	}
	sameGen := true
	for _, s := range sts[1:] {
		if s.Gen != sts[0].Gen {
			sameGen = false
		}
	}
	res := &State{Comps: map[string]string{}, Gen: sts[0].Gen, LockSnap: sts[0].LockSnap, UnlockSnap: sts[0].UnlockSnap}
	for _, s := range sts {
		if s.Unframed {
			res.Unframed = true
		}
	}
	for _, s := range sts[1:] {
		if s.LockSnap != res.LockSnap {
			res.LockSnap = nil
		}
		if s.UnlockSnap != res.UnlockSnap {
			res.UnlockSnap = nil
		}
	}
	names := map[string]bool{}
	if sameGen {
		for _, s := range sts {
			for k := range s.Comps {
				names[k] = true
			}
		}
	} else {
		tr.genN++
		res.Gen = tr.genN
		for k := range tr.comps {
			names[k] = true
		}
	}
	ks := make([]string, 0, len(names))
	for k := range names {
		ks = append(ks, k)
	}
	sort.Strings(ks)
	for _, k := range ks {
		c := Comp{k, tr.comps[k], false}
		first := tr.cur(sts[0], c)
		same := true
		syms := make([]string, len(sts))
		for i, s := range sts {
			syms[i] = tr.cur(s, c)
			if syms[i] != first {
				same = false
			}
		}
		if same {
			if _, explicit := sts[0].Comps[k]; explicit || !sameGen {
				res.Comps[k] = first
			}
			continue
		}
		// ite chain: last state is the default
		t := syms[len(sts)-1]
		for i := len(sts) - 2; i >= 0; i-- {
			t = ite(conds[i], syms[i], t)
		}
		res.Comps[k] = tr.define(tr.fresh(k+"@m"), c.Sort, t)
	}
	return res
}

// ---------------------------------------------------------------- memory access

func (tr *FnCtx) zeroVal(t types.Type) *Val {
	v := &Val{T: t}
	for _, a := range tr.W.flatten(t) {
		v.A = append(v.A, zeroOf(a.Sort))
	}
	return v
}

func (tr *FnCtx) freshVal(t types.Type, base string) *Val {
	v := &Val{T: t}
	if tup, ok := t.(*types.Tuple); ok {
		for i := 0; i < tup.Len(); i++ {
			v.Tuple = append(v.Tuple, tr.freshVal(tup.At(i).Type(), base))
		}
		return v
	}
	for _, a := range tr.W.flatten(t) {
		v.A = append(v.A, tr.freshConst(base, a.Sort))
	}
	tr.assumeWellFormed(v)
	return v
}

// assumeWellFormed: facts every Go value satisfies (slice header sanity).
func (tr *FnCtx) assumeWellFormed(v *Val) {
	if v.T == nil || tr.W.isOpaqueNamed(v.T) {
		return
	}
	switch u := v.T.Underlying().(type) {
	case *types.Slice:
		if len(v.A) == 4 {
			tr.assume(and("(<= 0 "+v.A[1]+")", "(<= 0 "+v.A[2]+")", "(<= "+v.A[2]+" "+v.A[3]+")",
				implies(eq(v.A[0], "0"), and(eq(v.A[2], "0"), eq(v.A[3], "0"), eq(v.A[1], "0")))))
		}
	case *types.Struct:
		i := 0
		for f := 0; f < u.NumFields(); f++ {
			ft := u.Field(f).Type()
			n := len(tr.W.flatten(ft))
			if i+n <= len(v.A) {
				tr.assumeWellFormed(&Val{T: ft, A: v.A[i : i+n]})
			}
			i += n
		}
	case *types.Basic:
		if u.Info()&types.IsUnsigned != 0 && len(v.A) == 1 {
			tr.assume("(<= 0 " + v.A[0] + ")")
		}
	}
}

func isRefLike(t types.Type) bool {
	switch t.Underlying().(type) {
	case *types.Pointer, *types.Map, *types.Chan, *types.Signature:
		return true
	}
	return false
}

// loadFrom reads a value of type t through pointer value p.
func (tr *FnCtx) loadFrom(st *State, p *Val, t types.Type) *Val {
	v := &Val{T: t}
	atoms := tr.W.flatten(t)
	if p.Loc != nil {
		l := p.Loc
		switch l.Kind {
		case LField:
			cs := tr.W.fieldComps(l.S, l.Prefix, t)
			for _, c := range cs {
				v.A = append(v.A, sel(tr.cur(st, c), l.Obj))
			}
		case LLocal:
			for _, a := range atoms {
				c := Comp{"L." + l.ID + "." + joinPath(l.Prefix, a.Path), a.Sort, false}
				v.A = append(v.A, tr.cur(st, c))
			}
		case LGlobal:
			v.A = tr.globalAtoms(l.ID, t)
		}
	} else {
		addr := p.one()
		for _, c := range tr.W.cellComps(t) {
			v.A = append(v.A, sel(tr.cur(st, c), addr))
		}
	}
	// name the loaded atoms to keep terms small
	for i, a := range v.A {
		if len(a) > 60 {
			v.A[i] = tr.define(tr.fresh("ld"), atoms[i].Sort, a)
		}
	}
	tr.assumeLoaded(st, v)
	return v
}

// assumeLoaded: pointers found in memory are allocated; slices are well formed.
func (tr *FnCtx) assumeLoaded(st *State, v *Val) {
	tr.assumeWellFormed(v)
	if v.T != nil && isRefLike(v.T) && len(v.A) == 1 {
		tr.assume("(isold " + v.A[0] + " " + tr.cur(st, compAlloc) + ")")
	}
	if v.T != nil {
		if _, ok := v.T.Underlying().(*types.Slice); ok && len(v.A) == 4 {
			tr.assume("(< " + v.A[0] + " " + tr.cur(st, compAlloc) + ")")
			tr.assume("(<= 0 " + v.A[0] + ")")
		}
		if _, ok := structOf(v.T); ok && !tr.W.isOpaqueNamed(v.T) {
			atoms := tr.W.flatten(v.T)
			if len(atoms) == len(v.A) {
				for i, a := range atoms {
					if a.Ref {
						tr.assume("(isold " + v.A[i] + " " + tr.cur(st, compAlloc) + ")")
					}
				}
			}
		}
	}
}

func (tr *FnCtx) storeTo(st *State, p *Val, val *Val) {
	t := val.T
	if p.Loc != nil {
		l := p.Loc
		switch l.Kind {
		case LField:
			cs := tr.W.fieldComps(l.S, l.Prefix, l.T)
			if len(cs) != len(val.A) {
				tr.note(fmt.Sprintf("store arity mismatch at field %s (%d vs %d)", l.Prefix, len(cs), len(val.A)))
				for _, c := range cs {
					tr.havocComp(st, c)
				}
				return
			}
			for i, c := range cs {
				tr.set(st, c, store(tr.cur(st, c), l.Obj, val.A[i]))
			}
		case LLocal:
			atoms := tr.W.flatten(l.T)
			if len(atoms) != len(val.A) {
				tr.note("store arity mismatch at local " + l.ID)
				return
			}
			for i, a := range atoms {
				c := Comp{"L." + l.ID + "." + joinPath(l.Prefix, a.Path), a.Sort, false}
				tr.set(st, c, val.A[i])
			}
		case LGlobal:
			tr.note("store to global " + l.ID + " ignored (globals are treated as immutable)")
			tr.unsupported = append(tr.unsupported, "store to global "+l.ID)
		}
		return
	}
	addr := p.one()
	cs := tr.W.cellComps(t)
	if len(cs) != len(val.A) {
		tr.note("store arity mismatch through pointer")
		for _, c := range cs {
			tr.havocComp(st, c)
		}
		return
	}
	for i, c := range cs {
		tr.set(st, c, store(tr.cur(st, c), addr, val.A[i]))
	}
}

// publish marks pointer values as reachable from shared memory.
func (tr *FnCtx) publish(st *State, v *Val) {
	if v == nil || v.T == nil {
		return
	}
	if pt, ok := v.T.Underlying().(*types.Pointer); ok && len(v.A) == 1 && v.Loc == nil {
		if _, isStruct := structOf(pt.Elem()); isStruct && !tr.W.isOpaqueNamed(pt.Elem()) {
			tr.set(st, compPub, store(tr.cur(st, compPub), v.A[0], "true"))
		}
	}
}

func (tr *FnCtx) elem(base, idx string) string { return "(elem " + base + " " + idx + ")" }

// at is the address of element i of a slice with the given backing and offset: elem(base, off+i).
// It is a separate function symbol so that quantified invariants trigger on (at b o i) without arithmetic in the pattern.
func (tr *FnCtx) at(base, off, idx string) string { return "(at " + base + " " + off + " " + idx + ")" }

// ---------------------------------------------------------------- constants

func (tr *FnCtx) strConst(s string) string {
	if s == "" {
		return "0"
	}
	if x, ok := tr.strs[s]; ok {
		return x
	}
	name := tr.declare(fmt.Sprintf("S!%d", len(tr.strs)+1), "Int")
	tr.emit(fmt.Sprintf("(assert (not (= %s 0)))", name))
	for _, o := range tr.strOrd {
		tr.emit(fmt.Sprintf("(assert (not (= %s %s)))", name, tr.strs[o]))
	}
	tr.strs[s] = name
	tr.strOrd = append(tr.strOrd, s)
	return name
}

func (tr *FnCtx) constVal(c *ssa.Const) *Val {
	t := c.Type()
	if c.Value == nil {
		return tr.zeroVal(t)
	}
	v := &Val{T: t}
	switch c.Value.Kind() {
	case constant.Bool:
		if constant.BoolVal(c.Value) {
			v.A = []string{"true"}
		} else {
			v.A = []string{"false"}
		}
	case constant.Int:
		if i, ok := constant.Int64Val(c.Value); ok {
			v.A = []string{intLit(i)}
		} else {
			s := c.Value.ExactString()
			if strings.HasPrefix(s, "-") {
				s = "(- " + s[1:] + ")"
			}
			v.A = []string{s}
		}
	case constant.String:
		v.A = []string{tr.strConst(constant.StringVal(c.Value))}
	default:
		v.A = []string{tr.freshConst("const", "Int")}
	}
	return v
}

func (tr *FnCtx) val(x ssa.Value) *Val {
	switch c := x.(type) {
	case *ssa.Const:
		return tr.constVal(c)
	case *ssa.Global:
		return &Val{T: c.Type(), Loc: &Loc{Kind: LGlobal, ID: c.Pkg.Pkg.Path() + "." + c.Name(), T: c.Type().(*types.Pointer).Elem()}}
	case *ssa.Function:
		return &Val{T: c.Type(), A: []string{tr.fnConst(c)}, Clos: &closureInfo{Fn: c}}
	case *ssa.Builtin:
		return &Val{T: c.Type(), A: []string{"0"}}
	}
	if v, ok := tr.vals[x]; ok {
		return v
	}
	// value not translated (e.g. defined in a block processed later — should not happen)
	tr.note("use of untranslated value " + x.Name())
	v := tr.freshVal(x.Type(), "undef_"+x.Name())
	tr.vals[x] = v
	return v
}

func (tr *FnCtx) fnConst(f *ssa.Function) string {
	name := tr.declare("Fn."+f.String(), "Int")
	if !tr.decl["nz:"+name] {
		tr.decl["nz:"+name] = true
		tr.emit("(assert (> " + name + " 0))")
	}
	return name
}

// ---------------------------------------------------------------- preamble

const preamble = `(set-option :produce-models true)
(set-logic ALL)
(declare-fun elem (Int Int) Int)
(declare-fun elemB (Int) Int)
(declare-fun elemI (Int) Int)
(assert (forall ((b Int) (i Int)) (! (and (= (elemB (elem b i)) b) (= (elemI (elem b i)) i) (< (elem b i) 0)) :pattern ((elem b i)))))
(assert (forall ((a Int)) (! (=> (< a 0) (= (elem (elemB a) (elemI a)) a)) :pattern ((elemB a)) :pattern ((elemI a)))))
(declare-fun uf1 (Int Int) Int)
(declare-fun cntzmark (Int Int Int) Bool)
(assert (forall ((b Int) (o Int) (n Int)) (! (cntzmark b o n) :pattern ((cntzmark b o n)))))
(declare-fun at (Int Int Int) Int)
(assert (forall ((b Int) (o Int) (i Int)) (! (= (at b o i) (elem b (+ o i))) :pattern ((at b o i)))))
(define-fun isold ((x Int) (a Int)) Bool (ite (< x 0) (< (elemB x) a) (< x a)))
(declare-fun card ((Array Int Bool)) Int)
(declare-fun str_lt (Int Int) Bool)
(declare-fun str_cat (Int Int) Int)
(declare-fun str_len (Int) Int)
(declare-fun box (Int Int) Int)
(declare-fun errIs (Int Int) Bool)
(declare-fun uf2 (Int Int Int) Int)
(assert (= (card ((as const (Array Int Bool)) false)) 0))
`

// ---------------------------------------------------------------- driver

func NewFnCtx(w *World, fn *ssa.Function, spec *FuncSpec) *FnCtx {
	pk := fnPkg(fn)
	tr := &FnCtx{W: w, Fn: fn, Spec: spec, Pkg: pk.Pkg, vals: map[ssa.Value]*Val{}, end: map[*ssa.BasicBlock]*State{},
		reach: map[*ssa.BasicBlock]string{}, edges: map[[2]int]string{}, strs: map[string]string{}, decl: map[string]bool{},
		comps: map[string]string{}, params: map[string]*Val{}, loops: map[*ssa.BasicBlock]*loopInfo{}, callCount: map[string]int{},
		rangeSeen: map[*ssa.Range]Comp{}, guard: "true", ghostCounts: map[string]int{},
		externUsed: map[string]bool{}, atsUsed: map[*AtSpec]bool{}, lemmasUsed: map[string]bool{}}
	tr.Short = shortPkg(pk.Pkg.Path(), w.ModPath) + "." + fnRelName(fn)
	return tr
}

func shortPkg(path, mod string) string {
	if path == mod {
		parts := strings.Split(mod, "/")
		return parts[len(parts)-1]
	}
	return strings.TrimPrefix(path, mod+"/")
}

func rpo(fn *ssa.Function) []*ssa.BasicBlock {
	seen := map[*ssa.BasicBlock]bool{}
	var post []*ssa.BasicBlock
	var dfs func(b *ssa.BasicBlock)
	dfs = func(b *ssa.BasicBlock) {
		seen[b] = true
		for _, s := range b.Succs {
			if !seen[s] && !s.Dominates(b) { // do not follow back edges
				dfs(s)
			}
		}
		post = append(post, b)
	}
	dfs(fn.Blocks[0])
	for i, j := 0, len(post)-1; i < j; i, j = i+1, j-1 {
		post[i], post[j] = post[j], post[i]
	}
	return post
}

func (tr *FnCtx) findLoops() {
	fn := tr.Fn
	for _, b := range fn.Blocks {
		for _, s := range b.Succs {
			if s.Dominates(b) { // back edge b -> s
				li := tr.loops[s]
				if li == nil {
					li = &loopInfo{header: s, blocks: map[*ssa.BasicBlock]bool{s: true}}
					tr.loops[s] = li
				}
				li.back = append(li.back, b)
				// natural loop: nodes reaching b without going through s
				stack := []*ssa.BasicBlock{b}
				for len(stack) > 0 {
					x := stack[len(stack)-1]
					stack = stack[:len(stack)-1]
					if li.blocks[x] {
						continue
					}
					li.blocks[x] = true
					for _, p := range x.Preds {
						stack = append(stack, p)
					}
				}
			}
		}
	}
	var hs []*ssa.BasicBlock
	for h := range tr.loops {
		hs = append(hs, h)
	}
	sort.Slice(hs, func(i, j int) bool { return hs[i].Index < hs[j].Index })
	for i, h := range hs {
		tr.loops[h].ordinal = i + 1
		tr.loopOf = append(tr.loopOf, tr.loops[h])
	}
}

// Translate builds all obligations of the function.
func (tr *FnCtx) Translate() (err error) {
	defer func() {
		if r := recover(); r != nil {
			err = fmt.Errorf("translation of %s failed: %v", tr.Short, r)
		}
	}()
	fn := tr.Fn
	if len(fn.Blocks) == 0 {
		return fmt.Errorf("%s has no body", tr.Short)
	}
	tr.findLoops()
	st := &State{Comps: map[string]string{}, Gen: 0}
	tr.entry = st.clone()
	tr.allocEntry = tr.cur(st, compAlloc)
	tr.assumeRaw("(>= " + tr.allocEntry + " 1)")
	// parameters and free variables
	for _, p := range fn.Params {
		v := tr.freshVal(p.Type(), "p_"+p.Name())
		tr.vals[p] = v
		tr.params[p.Name()] = v
		tr.assumeLoaded(st, v)
	}
	for _, fv := range fn.FreeVars {
		v := tr.freshVal(fv.Type(), "fv_"+fv.Name())
		tr.vals[fv] = v
		pv := *v
		pv.AutoDeref = fn.Parent() != nil && !strings.HasSuffix(fn.Name(), "$bound")
		tr.params[fv.Name()] = &pv
		if pv.AutoDeref && len(v.A) == 1 {
			tr.assumeRaw("(> " + v.A[0] + " 0)") // address of a captured variable's cell: an allocated object, never a slice element
		}
		tr.assumeLoaded(st, v)
	}
	// preconditions
	tr.assumeEntry(st)

	order := rpo(fn)
	for _, b := range order {
		tr.block(b)
	}
	tr.finish()
	return nil
}

func (tr *FnCtx) edgeCond(p, s *ssa.BasicBlock) string {
	return tr.edges[[2]int{p.Index, s.Index}]
}

func (tr *FnCtx) block(b *ssa.BasicBlock) {
	tr.curBlk = b
	li := tr.loops[b]
	var conds []string
	var sts []*State
	var preds []*ssa.BasicBlock
	for _, p := range b.Preds {
		if b.Dominates(p) {
			continue // back edge
		}
		if _, done := tr.end[p]; !done {
			continue // unreachable predecessor (e.g. recover block)
		}
		conds = append(conds, tr.edgeCond(p, b))
		sts = append(sts, tr.end[p])
		preds = append(preds, p)
	}
	var st *State
	if b.Index == 0 {
		st = tr.entry.clone()
		tr.reach[b] = "true"
	} else {
		if len(sts) == 0 {
			// unreachable block
			tr.reach[b] = "false"
			tr.end[b] = tr.entry.clone()
			tr.guard = "false"
			return
		}
		r := tr.define(fmt.Sprintf("reach_%d", b.Index), "Bool", or(conds...))
		tr.reach[b] = r
		tr.guard = r
		st = tr.mergeStates(conds, sts)
	}
	tr.guard = tr.reach[b]

	// phis
	phiVal := func(phi *ssa.Phi, only func(p *ssa.BasicBlock) bool) *Val {
		var res *Val
		// build ite chain over the selected preds
		for i := len(b.Preds) - 1; i >= 0; i-- {
			p := b.Preds[i]
			if !only(p) {
				continue
			}
			if _, done := tr.end[p]; !done {
				continue
			}
			v := tr.val(phi.Edges[i])
			if res == nil {
				res = &Val{T: phi.Type(), A: append([]string{}, v.A...), Loc: v.Loc, Clos: v.Clos}
				continue
			}
			c := tr.edgeCond(p, b)
			for k := range res.A {
				if k < len(v.A) {
					res.A[k] = ite(c, v.A[k], res.A[k])
				}
			}
		}
		return res
	}
	if li == nil {
		for _, in := range b.Instrs {
			phi, ok := in.(*ssa.Phi)
			if !ok {
				break
			}
			v := phiVal(phi, func(p *ssa.BasicBlock) bool { return true })
			if v == nil {
				v = tr.freshVal(phi.Type(), "phi")
			}
			tr.vals[phi] = v
		}
	} else {
		// loop header: check invariants on entry, havoc, assume invariants
		entryVals := map[*ssa.Phi]*Val{}
		for _, in := range b.Instrs {
			phi, ok := in.(*ssa.Phi)
			if !ok {
				break
			}
			v := phiVal(phi, func(p *ssa.BasicBlock) bool { return !b.Dominates(p) })
			if v == nil {
				v = tr.freshVal(phi.Type(), "phi")
			}
			entryVals[phi] = v
		}
		tr.loopEntry(li, st, entryVals)
		// havoc
		tr.havocLoop(li, st)
		li.phiFresh = map[*ssa.Phi]*Val{}
		for _, in := range b.Instrs {
			phi, ok := in.(*ssa.Phi)
			if !ok {
				break
			}
			v := tr.freshVal(phi.Type(), "phi_"+sanitize(phi.Comment))
			tr.vals[phi] = v
			li.phiFresh[phi] = v
			tr.assumeLoaded(st, v) // whatever a variable holds refers to allocated objects
		}
		tr.loopAssume(li, st)
		if tr.loopInterferes(li) {
			// the invariant was established when the previous iteration ended; since then other critical sections
			// may have run: only what the rely conditions keep stable survives at the loop head
			held := tr.cur(st, compHeld)
			tr.interference(st, tr.params)
			st.Comps[compHeld.Name] = held
		}
	}

	for idx, in := range b.Instrs {
		if _, ok := in.(*ssa.Phi); ok {
			continue
		}
		tr.instr(st, in, b, idx)
	}
	tr.end[b] = st
	// edges
	if len(b.Instrs) > 0 {
		switch last := b.Instrs[len(b.Instrs)-1].(type) {
		case *ssa.If:
			c := tr.val(last.Cond).one()
			tr.edges[[2]int{b.Index, b.Succs[0].Index}] = tr.define(fmt.Sprintf("e_%d_%d", b.Index, b.Succs[0].Index), "Bool", and(tr.reach[b], c))
			if b.Succs[1] != b.Succs[0] {
				tr.edges[[2]int{b.Index, b.Succs[1].Index}] = tr.define(fmt.Sprintf("e_%d_%d", b.Index, b.Succs[1].Index), "Bool", and(tr.reach[b], not(c)))
			} else {
				tr.edges[[2]int{b.Index, b.Succs[0].Index}] = tr.reach[b]
			}
		case *ssa.Jump:
			tr.edges[[2]int{b.Index, b.Succs[0].Index}] = tr.reach[b]
		}
	}
	// back edges: invariant preserved
	for _, s := range b.Succs {
		if s.Dominates(b) {
			if l := tr.loops[s]; l != nil {
				tr.loopBack(l, b, st)
			}
		}
	}
}

func sanitize(s string) string {
	var sb strings.Builder
	for _, r := range s {
		if (r >= 'a' && r <= 'z') || (r >= 'A' && r <= 'Z') || (r >= '0' && r <= '9') || r == '_' {
			sb.WriteRune(r)
		}
	}
	return sb.String()
}

// ---------------------------------------------------------------- instructions

func (tr *FnCtx) instr(st *State, in ssa.Instruction, b *ssa.BasicBlock, idx int) {
	switch x := in.(type) {
	case *ssa.DebugRef:
		return
	case *ssa.Alloc:
		tr.alloc(st, x)
	case *ssa.FieldAddr:
		tr.vals[x] = tr.fieldAddr(st, x)
	case *ssa.Field:
		tr.vals[x] = tr.field(x)
	case *ssa.IndexAddr:
		tr.vals[x] = tr.indexAddr(st, x)
	case *ssa.Index:
		tr.vals[x] = tr.freshVal(x.Type(), "index")
		tr.note("Index on array/string value: result unconstrained")
	case *ssa.UnOp:
		tr.vals[x] = tr.unop(st, x)
	case *ssa.BinOp:
		tr.vals[x] = tr.binop(x)
	case *ssa.Store:
		p := tr.val(x.Addr)
		v := tr.val(x.Val)
		tr.lockAccess(st, p, true, x)
		tr.storeTo(st, p, &Val{T: x.Val.Type(), A: v.A})
		if _, isVarCell := x.Addr.(*ssa.Alloc); isVarCell {
			// store into a variable of this function (heap cell only because a closure captures it later):
			// the value becomes shared when the closure is created, see MakeClosure
		} else if p.Loc == nil || p.Loc.Kind == LField {
			tr.publish(st, v)
		}
	case *ssa.Lookup:
		tr.vals[x] = tr.lookup(st, x)
	case *ssa.MapUpdate:
		tr.mapUpdate(st, x)
		// anchor "after mapupdate#k": k-th map assignment of the function in block order
		tr.callCount["mapupdate"]++
		tr.runAts(st, fmt.Sprintf("after mapupdate#%d", tr.callCount["mapupdate"]), nil)
	case *ssa.MakeMap:
		tr.vals[x] = tr.makeMap(st, x)
	case *ssa.MakeSlice:
		tr.vals[x] = tr.makeSlice(st, x)
	case *ssa.MakeChan:
		tr.vals[x] = &Val{T: x.Type(), A: []string{tr.newObj(st)}}
	case *ssa.MakeClosure:
		fn := x.Fn.(*ssa.Function)
		ci := &closureInfo{Fn: fn}
		for _, bnd := range x.Bindings {
			bv := tr.val(bnd)
			ci.Bindings = append(ci.Bindings, bv)
			tr.publish(st, bv)
			if al, ok := bnd.(*ssa.Alloc); ok && bv.Loc == nil {
				// captured variable: its current content is now reachable from the closure
				content := tr.loadFrom(st, bv, al.Type().(*types.Pointer).Elem())
				tr.publish(st, content)
			}
		}
		a := tr.freshConst("clos", "Int")
		tr.assume("(> " + a + " 0)")
		tr.vals[x] = &Val{T: x.Type(), A: []string{a}, Clos: ci}
	case *ssa.MakeInterface:
		v := tr.val(x.X)
		res := &Val{T: x.Type()}
		if len(v.A) == 1 && v.Loc == nil {
			sortOf := tr.W.flatten(x.X.Type())[0].Sort
			if sortOf == "Int" {
				tid := tr.typeID(x.X.Type())
				res.A = []string{"(box " + tid + " " + v.A[0] + ")"}
				tr.assume("(not (= (box " + tid + " " + v.A[0] + ") 0))")
			} else {
				res.A = []string{tr.freshConst("iface", "Int")}
			}
		} else {
			a := tr.freshConst("iface", "Int")
			tr.assume("(not (= " + a + " 0))")
			res.A = []string{a}
		}
		tr.publish(st, v)
		tr.vals[x] = res
	case *ssa.ChangeInterface:
		v := tr.val(x.X)
		tr.vals[x] = &Val{T: x.Type(), A: v.A}
	case *ssa.ChangeType:
		v := tr.val(x.X)
		tr.vals[x] = &Val{T: x.Type(), A: v.A, Loc: v.Loc, Clos: v.Clos}
	case *ssa.Convert:
		tr.vals[x] = tr.convert(x)
	case *ssa.TypeAssert:
		if x.CommaOk {
			ok := tr.freshConst("taok", "Bool")
			tr.vals[x] = &Val{T: x.Type(), Tuple: []*Val{tr.freshVal(x.AssertedType, "ta"), {T: types.Typ[types.Bool], A: []string{ok}}}}
		} else {
			tr.vals[x] = tr.freshVal(x.AssertedType, "ta")
		}
	case *ssa.Slice:
		tr.vals[x] = tr.sliceOp(st, x)
	case *ssa.Range:
		tr.rangeInit(st, x)
	case *ssa.Next:
		tr.vals[x] = tr.next(st, x)
	case *ssa.Extract:
		tv := tr.val(x.Tuple)
		if x.Index < len(tv.Tuple) {
			tr.vals[x] = tv.Tuple[x.Index]
		} else {
			tr.vals[x] = tr.freshVal(x.Type(), "extract")
		}
	case *ssa.Call:
		tr.vals[x] = tr.call(st, x.Common(), x, "call")
		if tr.Spec != nil && len(tr.Spec.Steps) > 0 {
			env := tr.newEnv(st, tr.entry, tr.nameEnv(b, idx))
			for _, cl := range tr.Spec.Steps {
				tr.oblige(tr.Short+"/step["+cl.Label+"]", "step", tr.evalClause(env, cl), cl.Src+" (after every call)")
			}
		}
	case *ssa.Go:
		tr.call(st, x.Common(), x, "go")
	case *ssa.Defer:
		tr.defers = append(tr.defers, deferRec{x, b})
		// evaluate arguments now (Go semantics); they are SSA values already
	case *ssa.RunDefers:
		tr.runDefers(st, b)
	case *ssa.Return:
		var res []*Val
		for _, r := range x.Results {
			res = append(res, tr.val(r))
		}
		tr.runAts(st, "return", nil)
		tr.rets = append(tr.rets, retSite{guard: tr.guard, st: st.clone(), res: res, block: b})
	case *ssa.Panic:
		tr.safety = append(tr.safety, accessSite{tr.guard, "false", "panic reached in block " + fmt.Sprint(b.Index)})
	case *ssa.If, *ssa.Jump:
	case *ssa.Send:
		tr.sendAnchor(st, x.Chan)
	case *ssa.Select:
		tr.vals[x] = tr.freshVal(x.Type(), "select")
		// anchors "send <field>#k": a (possibly non-blocking) send on a channel held in a struct field. What the send
		// means (e.g. "a persist request is pending afterwards") is stated as a ghost update at the anchor and listed
		// as an assumption; the proof obligation is that the send is still there (a lost anchor fails).
		for _, sst := range x.States {
			if sst.Dir == types.SendOnly {
				tr.sendAnchor(st, sst.Chan)
			}
			if sst.Dir == types.RecvOnly {
				// anchor "recv <field>#k": a receive case on a channel held in a struct field. The ghost update is applied at
				// the select itself, i.e. on every branch (an over-approximation: "a value may have been received")
				if name := fieldFuncName(sst.Chan); name != "" {
					tr.callCount["recv:"+name]++
					tr.runAts(st, fmt.Sprintf("recv %s#%d", name, tr.callCount["recv:"+name]), nil)
				}
			}
		}
	default:
		tr.note(fmt.Sprintf("unsupported instruction %T: result unconstrained", in))
		tr.unsupported = append(tr.unsupported, fmt.Sprintf("%T", in))
		if v, ok := in.(ssa.Value); ok {
			tr.vals[v] = tr.freshVal(v.Type(), "unsup")
		}
	}
}

func (tr *FnCtx) sendAnchor(st *State, ch ssa.Value) {
	name := fieldFuncName(ch)
	if name == "" {
		return
	}
	tr.callCount["send:"+name]++
	anchor := fmt.Sprintf("send %s#%d", name, tr.callCount["send:"+name])
	if tr.Spec != nil {
		for _, at := range tr.Spec.Ats {
			if at.Anchor == anchor && at.Kind == "ghost" {
				tr.assumesUsed = append(tr.assumesUsed, tr.Short+": the send on channel field "+name+" means: ghost "+at.Src)
			}
		}
	}
	tr.runAts(st, anchor, nil)
}

func (tr *FnCtx) typeID(t types.Type) string {
	name := tr.declare("T."+tr.W.typeKey(t), "Int")
	return name
}

func (tr *FnCtx) newObj(st *State) string {
	a := tr.cur(st, compAlloc)
	addr := tr.define(tr.fresh("obj"), "Int", a)
	tr.set(st, compAlloc, add(a, "1"))
	tr.set(st, compPub, store(tr.cur(st, compPub), addr, "false"))
	return addr
}

func (tr *FnCtx) alloc(st *State, x *ssa.Alloc) {
	et := x.Type().(*types.Pointer).Elem()
	if !x.Heap {
		id := sanitize(x.Comment) + "_" + x.Name()
		loc := &Loc{Kind: LLocal, ID: id, T: et}
		v := &Val{T: x.Type(), Loc: loc}
		tr.vals[x] = v
		tr.storeTo(st, v, tr.zeroVal(et))
		return
	}
	addr := tr.newObj(st)
	v := &Val{T: x.Type(), A: []string{addr}}
	tr.vals[x] = v
	if _, isArr := et.Underlying().(*types.Array); isArr && !tr.W.isOpaqueNamed(et) {
		return // backing array for varargs; elements are written explicitly
	}
	z := tr.zeroVal(et)
	tr.storeTo(st, v, z)
	if stru, ok := structOf(et); ok && tr.W.isOpaqueNamed(et) {
		// struct of another module: as a value it is opaque, but its fields are components when reached
		// through a pointer; a fresh object has all of them zero
		for i := 0; i < stru.NumFields(); i++ {
			f := stru.Field(i)
			atoms := tr.W.flatten(f.Type())
			for j, c := range tr.W.fieldComps(et, f.Name(), f.Type()) {
				tr.set(st, c, store(tr.cur(st, c), addr, zeroOf(atoms[j].Sort)))
			}
		}
	}
}

func (tr *FnCtx) fieldAddr(st *State, x *ssa.FieldAddr) *Val {
	p := tr.val(x.X)
	pt := x.X.Type().Underlying().(*types.Pointer).Elem()
	s := pt.Underlying().(*types.Struct)
	f := s.Field(x.Field)
	if p.Loc != nil {
		l := *p.Loc
		l.Prefix = joinPath(l.Prefix, f.Name())
		l.T = f.Type()
		return &Val{T: x.Type(), Loc: &l}
	}
	obj := p.one()
	tr.safety = append(tr.safety, accessSite{tr.guard, not(eq(obj, "0")), fmt.Sprintf("nil dereference %s.%s", x.X.Name(), f.Name())})
	return &Val{T: x.Type(), Loc: &Loc{Kind: LField, Obj: obj, S: pt, Prefix: f.Name(), T: f.Type()}}
}

func (tr *FnCtx) field(x *ssa.Field) *Val {
	v := tr.val(x.X)
	s := x.X.Type().Underlying().(*types.Struct)
	off := 0
	for i := 0; i < x.Field; i++ {
		off += len(tr.W.flatten(s.Field(i).Type()))
	}
	n := len(tr.W.flatten(s.Field(x.Field).Type()))
	if tr.W.isOpaqueNamed(x.X.Type()) || off+n > len(v.A) {
		tr.note("Field of opaque struct value: unconstrained")
		return tr.freshVal(x.Type(), "field")
	}
	return &Val{T: x.Type(), A: v.A[off : off+n]}
}

func (tr *FnCtx) indexAddr(st *State, x *ssa.IndexAddr) *Val {
	base := tr.val(x.X)
	idx := tr.val(x.Index).one()
	switch t := x.X.Type().Underlying().(type) {
	case *types.Slice:
		if len(base.A) != 4 {
			return tr.freshVal(x.Type(), "idxaddr")
		}
		tr.safety = append(tr.safety, accessSite{tr.guard, and("(<= 0 "+idx+")", "(< "+idx+" "+base.A[2]+")"), fmt.Sprintf("index out of range %s[%s]", x.X.Name(), x.Index.Name())})
		return &Val{T: x.Type(), A: []string{tr.at(base.A[0], base.A[1], idx)}}
	case *types.Pointer: // pointer to array
		if base.Loc != nil {
			tr.note("IndexAddr on non-first-class array pointer")
			return tr.freshVal(x.Type(), "idxaddr")
		}
		_ = t
		return &Val{T: x.Type(), A: []string{tr.at(base.one(), "0", idx)}}
	}
	return tr.freshVal(x.Type(), "idxaddr")
}

func (tr *FnCtx) unop(st *State, x *ssa.UnOp) *Val {
	v := tr.val(x.X)
	switch x.Op {
	case token.MUL:
		tr.lockAccess(st, v, false, x)
		if v.Loc == nil && len(v.A) == 1 {
			tr.safety = append(tr.safety, accessSite{tr.guard, not(eq(v.A[0], "0")), "nil dereference *" + x.X.Name()})
		}
		return tr.loadFrom(st, v, x.Type())
	case token.NOT:
		return &Val{T: x.Type(), A: []string{not(v.one())}}
	case token.SUB:
		return &Val{T: x.Type(), A: []string{"(- " + v.one() + ")"}}
	case token.ARROW:
		if x.CommaOk {
			return &Val{T: x.Type(), Tuple: []*Val{tr.freshVal(x.Type().(*types.Tuple).At(0).Type(), "recv"), tr.freshVal(types.Typ[types.Bool], "recvok")}}
		}
		return tr.freshVal(x.Type(), "recv")
	}
	tr.note("unsupported unary operator " + x.Op.String())
	return tr.freshVal(x.Type(), "unop")
}

func isString(t types.Type) bool {
	b, ok := t.Underlying().(*types.Basic)
	return ok && b.Info()&types.IsString != 0
}

func (tr *FnCtx) binop(x *ssa.BinOp) *Val {
	a := tr.val(x.X)
	b := tr.val(x.Y)
	res := &Val{T: x.Type()}
	bin := func(op string) *Val {
		res.A = []string{"(" + op + " " + a.one() + " " + b.one() + ")"}
		return res
	}
	switch x.Op {
	case token.EQL, token.NEQ:
		var parts []string
		if a.Loc != nil || b.Loc != nil || len(a.A) != len(b.A) {
			tr.note("comparison of non-first-class values: unconstrained")
			return tr.freshVal(x.Type(), "cmp")
		}
		for i := range a.A {
			parts = append(parts, eq(a.A[i], b.A[i]))
		}
		e := and(parts...)
		if x.Op == token.NEQ {
			e = not(e)
		}
		res.A = []string{e}
		return res
	case token.LSS, token.LEQ, token.GTR, token.GEQ:
		if isString(x.X.Type()) {
			var e string
			switch x.Op {
			case token.LSS:
				e = "(str_lt " + a.one() + " " + b.one() + ")"
			case token.GTR:
				e = "(str_lt " + b.one() + " " + a.one() + ")"
			case token.LEQ:
				e = not("(str_lt " + b.one() + " " + a.one() + ")")
			case token.GEQ:
				e = not("(str_lt " + a.one() + " " + b.one() + ")")
			}
			res.A = []string{e}
			return res
		}
		return bin(map[token.Token]string{token.LSS: "<", token.LEQ: "<=", token.GTR: ">", token.GEQ: ">="}[x.Op])
	case token.ADD:
		if isString(x.Type()) {
			res.A = []string{"(str_cat " + a.one() + " " + b.one() + ")"}
			return res
		}
		return bin("+")
	case token.SUB:
		return bin("-")
	case token.MUL:
		return bin("*")
	case token.LAND:
		return bin("and")
	case token.LOR:
		return bin("or")
	}
	tr.note("unsupported binary operator " + x.Op.String() + ": result unconstrained")
	return tr.freshVal(x.Type(), "binop")
}

func (tr *FnCtx) convert(x *ssa.Convert) *Val {
	v := tr.val(x.X)
	from, fok := x.X.Type().Underlying().(*types.Basic)
	to, tok := x.Type().Underlying().(*types.Basic)
	if fok && tok && from.Info()&types.IsInteger != 0 && to.Info()&types.IsInteger != 0 {
		return &Val{T: x.Type(), A: v.A} // width ignored: machine integers are mathematical (stated assumption)
	}
	tr.note("conversion " + x.X.Type().String() + " -> " + x.Type().String() + ": result unconstrained")
	return tr.freshVal(x.Type(), "conv")
}

func (tr *FnCtx) sliceOp(st *State, x *ssa.Slice) *Val {
	v := tr.val(x.X)
	var lo, hi string
	if x.Low != nil {
		lo = tr.val(x.Low).one()
	} else {
		lo = "0"
	}
	switch t := x.X.Type().Underlying().(type) {
	case *types.Slice:
		if len(v.A) != 4 {
			return tr.freshVal(x.Type(), "slice")
		}
		if x.High != nil {
			hi = tr.val(x.High).one()
		} else {
			hi = v.A[2]
		}
		tr.safety = append(tr.safety, accessSite{tr.guard, and("(<= 0 "+lo+")", "(<= "+lo+" "+hi+")", "(<= "+hi+" "+v.A[3]+")"), "slice bounds out of range " + x.X.Name()})
		cp := sub(v.A[3], lo)
		if x.Max != nil {
			cp = sub(tr.val(x.Max).one(), lo)
		}
		// Go: s[lo:hi] of a nil slice stays nil only if lo==hi==0; base stays
		return &Val{T: x.Type(), A: []string{v.A[0], add(v.A[1], lo), sub(hi, lo), cp}}
	case *types.Pointer: // *[N]T
		arr := t.Elem().Underlying().(*types.Array)
		if v.Loc != nil {
			return tr.freshVal(x.Type(), "slice")
		}
		if x.High != nil {
			hi = tr.val(x.High).one()
		} else {
			hi = intLit(arr.Len())
		}
		return &Val{T: x.Type(), A: []string{v.one(), lo, sub(hi, lo), sub(intLit(arr.Len()), lo)}}
	}
	tr.note("slice of string: unconstrained")
	return tr.freshVal(x.Type(), "slice")
}

func (tr *FnCtx) makeSlice(st *State, x *ssa.MakeSlice) *Val {
	n := tr.val(x.Len).one()
	c := tr.val(x.Cap).one()
	b := tr.newObj(st)
	et := x.Type().Underlying().(*types.Slice).Elem()
	// zero all elements of the fresh backing: M'[a] = (elemB(a)==b && a<0) ? zero : M[a]
	for _, cc := range tr.W.cellComps(et) {
		old := tr.cur(st, cc)
		nw := tr.havocComp(st, cc)
		z := zeroOf(elemSort(cc.Sort))
		tr.assumeRaw(fmt.Sprintf("(forall ((a Int)) (! (= (select %s a) (ite (and (< a 0) (= (elemB a) %s)) %s (select %s a))) :pattern ((select %s a))))", nw, b, z, old, nw))
	}
	tr.safety = append(tr.safety, accessSite{tr.guard, and("(<= 0 "+n+")", "(<= "+n+" "+c+")"), "makeslice: len out of range"})
	return &Val{T: x.Type(), A: []string{b, "0", n, c}}
}

// ---------------------------------------------------------------- maps

func (tr *FnCtx) mapDom(st *State, mt types.Type, m string) string {
	return sel(tr.cur(st, tr.W.mapDomComp(mt)), m)
}

func (tr *FnCtx) mapGet(st *State, mt types.Type, m, k string) (*Val, string) {
	mu := mt.Underlying().(*types.Map)
	in := sel(tr.mapDom(st, mt, m), k)
	inS := tr.define(tr.fresh("in"), "Bool", in)
	v := &Val{T: mu.Elem()}
	atoms := tr.W.flatten(mu.Elem())
	for i, c := range tr.W.mapValComps(mt) {
		raw := sel(sel(tr.cur(st, c), m), k)
		v.A = append(v.A, tr.define(tr.fresh("mv"), atoms[i].Sort, raw))
	}
	return v, inS
}

func (tr *FnCtx) keyAtom(k *Val) string {
	if len(k.A) != 1 {
		tr.note("map key with several atoms: unsupported")
		return tr.freshConst("key", "Int")
	}
	return k.A[0]
}

func (tr *FnCtx) lookup(st *State, x *ssa.Lookup) *Val {
	mt := x.X.Type()
	if _, ok := mt.Underlying().(*types.Map); !ok {
		tr.note("string index: unconstrained")
		return tr.freshVal(x.Type(), "lookup")
	}
	m := tr.val(x.X).one()
	k := tr.keyAtom(tr.val(x.Index))
	tr.lockMap(st, mt, false, x)
	v, in := tr.mapGet(st, mt, m, k)
	tr.assumeLoaded(st, v)
	if x.CommaOk {
		return &Val{T: x.Type(), Tuple: []*Val{v, {T: types.Typ[types.Bool], A: []string{in}}}}
	}
	return v
}

func (tr *FnCtx) mapSet(st *State, mt types.Type, m, k string, v *Val) {
	dc := tr.W.mapDomComp(mt)
	d := tr.cur(st, dc)
	oldDom := tr.define(tr.fresh("dom"), "(Array Int Bool)", sel(d, m))
	newDom := tr.define(tr.fresh("dom"), "(Array Int Bool)", store(oldDom, k, "true"))
	tr.set(st, dc, store(d, m, newDom))
	tr.assume(eq("(card "+newDom+")", add("(card "+oldDom+")", ite(sel(oldDom, k), "0", "1"))))
	tr.assume("(>= (card " + oldDom + ") 0)")
	cs := tr.W.mapValComps(mt)
	if len(cs) != len(v.A) {
		tr.note("map update arity mismatch")
		return
	}
	for i, c := range cs {
		a := tr.cur(st, c)
		tr.set(st, c, store(a, m, store(sel(a, m), k, v.A[i])))
	}
}

func (tr *FnCtx) mapDelete(st *State, mt types.Type, m, k string) {
	dc := tr.W.mapDomComp(mt)
	d := tr.cur(st, dc)
	oldDom := tr.define(tr.fresh("dom"), "(Array Int Bool)", sel(d, m))
	newDom := tr.define(tr.fresh("dom"), "(Array Int Bool)", store(oldDom, k, "false"))
	tr.set(st, dc, store(d, m, newDom))
	tr.assume(eq("(card "+newDom+")", sub("(card "+oldDom+")", ite(sel(oldDom, k), "1", "0"))))
	tr.assume("(>= (card " + newDom + ") 0)")
	atoms := tr.W.flatten(mt.Underlying().(*types.Map).Elem())
	for i, c := range tr.W.mapValComps(mt) {
		a := tr.cur(st, c)
		tr.set(st, c, store(a, m, store(sel(a, m), k, zeroOf(atoms[i].Sort))))
	}
}

func (tr *FnCtx) mapUpdate(st *State, x *ssa.MapUpdate) {
	mt := x.Map.Type()
	m := tr.val(x.Map).one()
	k := tr.keyAtom(tr.val(x.Key))
	v := tr.val(x.Value)
	tr.lockMap(st, mt, true, x)
	tr.safety = append(tr.safety, accessSite{tr.guard, not(eq(m, "0")), "assignment to entry in nil map " + x.Map.Name()})
	tr.mapSet(st, mt, m, k, v)
	tr.publish(st, v)
}

func (tr *FnCtx) makeMap(st *State, x *ssa.MakeMap) *Val {
	m := tr.newObj(st)
	dc := tr.W.mapDomComp(x.Type())
	tr.set(st, dc, store(tr.cur(st, dc), m, "((as const (Array Int Bool)) false)"))
	atoms := tr.W.flatten(x.Type().Underlying().(*types.Map).Elem())
	for i, c := range tr.W.mapValComps(x.Type()) {
		tr.set(st, c, store(tr.cur(st, c), m, "((as const (Array Int "+atoms[i].Sort+")) "+zeroOf(atoms[i].Sort)+")"))
	}
	return &Val{T: x.Type(), A: []string{m}}
}

// range over a map: ghost set of keys already produced
func (tr *FnCtx) rangeInit(st *State, x *ssa.Range) {
	if _, ok := x.X.Type().Underlying().(*types.Map); !ok {
		tr.note("range over string: unsupported")
		tr.vals[x] = &Val{T: x.Type(), A: []string{"0"}}
		return
	}
	c := Comp{"$seen." + x.Name(), "(Array Int Bool)", false}
	tr.rangeSeen[x] = c
	tr.set(st, c, "((as const (Array Int Bool)) false)")
	tr.vals[x] = &Val{T: x.Type(), A: []string{tr.val(x.X).one()}}
}

func (tr *FnCtx) next(st *State, x *ssa.Next) *Val {
	rg, ok := x.Iter.(*ssa.Range)
	tup := x.Type().(*types.Tuple)
	if !ok || x.IsString {
		return tr.freshVal(x.Type(), "next")
	}
	c, ok := tr.rangeSeen[rg]
	if !ok {
		return tr.freshVal(x.Type(), "next")
	}
	mt := rg.X.Type()
	m := tr.val(rg.X).one()
	tr.lockMap(st, mt, false, x)
	okc := tr.freshConst("nextok", "Bool")
	k := tr.freshConst("nextk", "Int")
	dom := tr.define(tr.fresh("dom"), "(Array Int Bool)", tr.mapDom(st, mt, m))
	seen := tr.cur(st, c)
	tr.assume(implies(okc, and(sel(dom, k), not(sel(seen, k)))))
	tr.assume(implies(not(okc), fmt.Sprintf("(forall ((kk Int)) (! (=> (select %s kk) (select %s kk)) :pattern ((select %s kk))))", dom, seen, dom)))
	tr.set(st, c, ite(okc, store(seen, k, "true"), seen))
	tr.assume(implies(okc, eq("(card "+store(seen, k, "true")+")", "(+ (card "+seen+") 1)")))
	tr.assume("(>= (card " + seen + ") 0)")
	kv := &Val{T: tup.At(1).Type(), A: []string{k}}
	var vv *Val
	if _, isInvalid := tup.At(2).Type().(*types.Basic); isInvalid && tup.At(2).Type() == types.Typ[types.Invalid] {
		vv = &Val{T: tup.At(2).Type(), A: []string{"0"}}
	} else {
		vv, _ = tr.mapGet(st, mt, m, k)
		tr.assumeLoaded(st, vv)
	}
	if tup.At(1).Type() == types.Typ[types.Invalid] {
		kv = &Val{T: tup.At(1).Type(), A: []string{k}}
	}
	return &Val{T: x.Type(), Tuple: []*Val{{T: types.Typ[types.Bool], A: []string{okc}}, kv, vv}}
}

// ---------------------------------------------------------------- defers

func (tr *FnCtx) runDefers(st *State, b *ssa.BasicBlock) {
	for i := len(tr.defers) - 1; i >= 0; i-- {
		d := tr.defers[i]
		if d.block == b || d.block.Dominates(b) {
			tr.call(st, d.instr.Common(), d.instr, "defer")
			continue
		}
		g := tr.reach[d.block]
		if g == "" || g == "false" {
			continue
		}
		// guarded execution
		saved := tr.guard
		st2 := st.clone()
		tr.guard = and(saved, g)
		tr.inGuardedDefer = true // the conjunction may be unsatisfiable on this path: no vacuity canary here
		tr.call(st2, d.instr.Common(), d.instr, "defer")
		tr.inGuardedDefer = false
		tr.guard = saved
		m := tr.mergeStates([]string{g, "true"}, []*State{st2, st})
		st.Comps = m.Comps
		st.Gen = m.Gen
	}
}

// globalAtoms: package-level variables are treated as immutable constants. Variables of type error
// (sentinel errors created by errors.New in package initialisation) are non-nil and pairwise distinct.
func (tr *FnCtx) globalAtoms(id string, t types.Type) []string {
	var out []string
	for _, a := range tr.W.flatten(t) {
		name := "G." + id + a.Path
		first := !tr.decl[sym(name)]
		s := tr.declare(name, a.Sort)
		out = append(out, s)
		if first && types.Identical(t, types.Universe.Lookup("error").Type()) {
			tr.emit("(assert (not (= " + s + " 0)))")
			for _, o := range tr.errGlobals {
				tr.emit("(assert (not (= " + s + " " + o + ")))")
			}
			tr.errGlobals = append(tr.errGlobals, s)
			tr.externUsed["package-level error variables are immutable, non-nil and pairwise distinct"] = true
		}
	}
	return out
}
