package main

// Contracts at function entry/exit, loops, calls by contract, lock discipline.

import (
	"fmt"
	"go/types"
	"sort"
	"strings"

	"golang.org/x/tools/go/ssa"
)

// ---------------------------------------------------------------- naming environment

func (tr *FnCtx) nameEnv(b *ssa.BasicBlock, upto int) map[string]*Val {
	env := map[string]*Val{}
	for k, v := range tr.params {
		env[k] = v
	}
	seen := map[string]bool{}
	scan := func(blk *ssa.BasicBlock, limit int) {
		for i := limit - 1; i >= 0; i-- {
			switch x := blk.Instrs[i].(type) {
			case *ssa.DebugRef:
				if x.Object() == nil {
					continue
				}
				name := x.Object().Name()
				if seen[name] {
					continue
				}
				if v, ok := tr.vals[x.X]; ok {
					seen[name] = true
					if x.IsAddr {
						av := *v
						av.AutoDeref = true
						env[name] = &av
					} else {
						env[name] = v
					}
				} else if c, ok := x.X.(*ssa.Const); ok {
					seen[name] = true
					env[name] = tr.constVal(c)
				}
			case *ssa.Phi:
				if x.Comment != "" && !seen[x.Comment] {
					if v, ok := tr.vals[x]; ok {
						seen[x.Comment] = true
						env[x.Comment] = v
					}
				}
			case *ssa.Alloc:
				if x.Comment != "" && !seen[x.Comment] {
					if v, ok := tr.vals[x]; ok {
						seen[x.Comment] = true
						av := *v
						av.AutoDeref = true // a variable: specs see its content
						env[x.Comment] = &av
					}
				}
			}
		}
	}
	scan(b, upto)
	for d := b.Idom(); d != nil; d = d.Idom() {
		scan(d, len(d.Instrs))
	}
	return env
}

func (tr *FnCtx) newEnv(st, old *State, vars map[string]*Val) *Env {
	return &Env{tr: tr, vars: vars, st: st, old: old, pkg: tr.Pkg, allocOld: tr.allocEntry}
}

// evalClause evaluates a clause, turning evaluation panics into a failed (false) obligation text.
func (tr *FnCtx) evalClause(env *Env, cl *Clause) (res string) {
	defer func() {
		if r := recover(); r != nil {
			tr.specErrors = append(tr.specErrors, fmt.Sprintf("%s: [%s] %v", cl.Line, cl.Label, r))
			res = "false"
		}
	}()
	return env.evalBool(cl.E)
}

// ---------------------------------------------------------------- entry / exit

func (tr *FnCtx) lockModeOf(spec *FuncSpec, fn *ssa.Function) string {
	if spec != nil && spec.LockMode != "" {
		return spec.LockMode
	}
	if !tr.W.inLockPkg(fnPkg(fn).Pkg.Path()) {
		return "any"
	}
	if d, ok := tr.W.C.LockDefault[fnPkg(fn).Pkg.Path()]; ok {
		return d
	}
	// default: exported API and goroutine entry points start without the lock
	if fn.Object() != nil && fn.Object().Exported() {
		return "none"
	}
	if fn.Parent() != nil {
		return "none" // closures run as goroutines/timers unless a contract says otherwise
	}
	return "any"
}

func heldCond(mode, held string) string {
	switch mode {
	case "W":
		return eq(held, "2")
	case "R":
		return "(>= " + held + " 1)"
	case "none":
		return eq(held, "0")
	}
	return "true"
}

func (tr *FnCtx) assumeEntry(st *State) {
	held := tr.cur(st, compHeld)
	tr.assumeRaw(and("(<= 0 "+held+")", "(<= "+held+" 2)"))
	tr.assumeRaw(heldCond(tr.lockModeOf(tr.Spec, tr.Fn), held))
	tr.assumeRaw("(>= " + tr.cur(st, compClock) + " 0)")
	if tr.Spec == nil {
		return
	}
	env := tr.newEnv(st, st, tr.params)
	for _, cl := range tr.Spec.Requires {
		tr.assumeRaw(tr.evalClause(env, cl))
	}
	tr.entryAssumes = tr.Spec.Assumes
	if tr.lockModeOf(tr.Spec, tr.Fn) != "none" {
		tr.applyEntryAssumes(st)
	}
}

// applyEntryAssumes: 'assumes' clauses of an entry point are stable facts; for functions that take the
// lock themselves they are assumed when the lock has been acquired (together with the monitor invariant).
func (tr *FnCtx) applyEntryAssumes(st *State) {
	if tr.entryAssumes == nil {
		return
	}
	env := tr.newEnv(st, tr.entry, tr.params)
	for _, cl := range tr.entryAssumes {
		tr.assume(tr.evalClause(env, cl))
		tr.assumesUsed = append(tr.assumesUsed, tr.Short+": assumes ["+cl.Label+"] "+cl.Src)
	}
	tr.entryAssumes = nil
}

func resultNames(fn *ssa.Function) []string {
	res := fn.Signature.Results()
	var names []string
	for i := 0; i < res.Len(); i++ {
		n := res.At(i).Name()
		if n == "" || n == "_" {
			if res.Len() == 1 {
				n = "res"
			} else {
				n = fmt.Sprintf("res%d", i)
			}
		}
		names = append(names, n)
	}
	return names
}

func (tr *FnCtx) finish() {
	tr.guard = "true"
	fn := tr.Fn
	names := resultNames(fn)
	// ensures
	if tr.Spec != nil && !tr.Spec.Trusted {
		for _, cl := range tr.Spec.Ensures {
			var parts []string
			var cases []string
			for _, r := range tr.rets {
				vars := map[string]*Val{}
				for k, v := range tr.params {
					vars[k] = v
				}
				for i, n := range names {
					if i < len(r.res) {
						vars[n] = &Val{T: fn.Signature.Results().At(i).Type(), A: r.res[i].A, Loc: r.res[i].Loc}
						if res := fn.Signature.Results(); res.Len() > 1 {
							vars[fmt.Sprintf("res%d", i)] = vars[n]
						} else {
							vars["res"] = vars[n]
						}
					}
				}
				env := tr.newEnv(r.st, tr.entry, vars)
				parts = append(parts, implies(r.guard, tr.evalClause(env, cl)))
				cases = append(cases, fmt.Sprintf("return in block %d", r.block.Index))
			}
			for _, pg := range splitAnd(and(parts...)) {
				o := &Obligation{Name: tr.Short + "/ensures[" + cl.Label + "]", Fn: tr.Short, Kind: "ensures", Prefix: len(tr.cmds), Goal: pg, Src: cl.Src, Ctx: tr, Cases: cases}
				tr.obls = append(tr.obls, o)
			}
		}
	}
	// lock protocol: balanced
	if tr.lockSweep {
		var parts []string
		h0 := tr.cur(tr.entry, compHeld)
		for _, r := range tr.rets {
			parts = append(parts, implies(r.guard, eq(tr.cur(r.st, compHeld), h0)))
		}
		tr.obls = append(tr.obls, &Obligation{Name: tr.Short + "/lockproto[balanced]", Fn: tr.Short, Kind: "lock", Prefix: len(tr.cmds), Goal: and(parts...), Src: "held(mx) on return == held(mx) on entry", Ctx: tr})
		mk := func(name string, sites []accessSite, src string) {
			var ps, cs []string
			for _, s := range sites {
				ps = append(ps, implies(s.guard, s.cond))
				cs = append(cs, s.desc)
			}
			tr.obls = append(tr.obls, &Obligation{Name: tr.Short + "/" + name, Fn: tr.Short, Kind: "lock", Prefix: len(tr.cmds), Goal: and(ps...), Src: src, Ctx: tr, Cases: cs})
		}
		mk("lock[read]", tr.lockReads, "every read of a guarded location happens with mx held (R or W), or on an unpublished object")
		mk("lock[write]", tr.lockWrites, "every write of a guarded location happens with mx held exclusively, or on an unpublished object")
	}
	if tr.Spec != nil && tr.Spec.Safety {
		var ps, cs []string
		for _, s := range tr.safety {
			ps = append(ps, implies(s.guard, s.cond))
			cs = append(cs, s.desc)
		}
		tr.obls = append(tr.obls, &Obligation{Name: tr.Short + "/safety", Fn: tr.Short, Kind: "safety", Prefix: len(tr.cmds), Goal: and(ps...), Src: "no nil dereference, index out of range, nil-map write or explicit panic", Ctx: tr, Cases: cs})
	}
	// frame
	if tr.Spec != nil && tr.Spec.HasMod && !tr.Spec.Trusted {
		tr.frameObligations()
	}
	// loop invariants attached to a loop that does not exist any more are lost proofs
	if tr.Spec != nil {
		for k, ls := range tr.Spec.Loops {
			found := false
			for _, li := range tr.loopOf {
				if li.ordinal == k {
					found = true
				}
			}
			if ls.Complete {
				// syntactic: every edge that leaves the loop starts at its header (range exhausted / condition false); a
				// break, return or goto out of the body is reported
				goal, why := "true", "loop is left only through its header"
				if !found {
					goal, why = "false", fmt.Sprintf("loop %d does not exist in the function any more", k)
				}
				for _, li := range tr.loopOf {
					if li.ordinal != k {
						continue
					}
					for b := range li.blocks {
						if b == li.header {
							continue
						}
						if len(b.Instrs) > 0 {
							if _, isRet := b.Instrs[len(b.Instrs)-1].(*ssa.Return); isRet {
								goal, why = "false", fmt.Sprintf("block %d of the loop body returns from the function", b.Index)
							}
						}
						for _, sc := range b.Succs {
							if !li.blocks[sc] {
								goal, why = "false", fmt.Sprintf("block %d of the loop body leaves the loop (break/goto) to block %d", b.Index, sc.Index)
							}
						}
					}
				}
				tr.obls = append(tr.obls, &Obligation{Name: fmt.Sprintf("%s/loop%d/complete", tr.Short, k), Fn: tr.Short, Kind: "scan", Prefix: len(tr.cmds), Goal: goal,
					Src: fmt.Sprintf("loop %d complete (every element is visited): %s", k, why), Ctx: tr})
			}
			if !found {
				for _, cl := range ls.Invariants {
					tr.obls = append(tr.obls, &Obligation{Name: fmt.Sprintf("%s/loop%d/inv-entry[%s]", tr.Short, k, cl.Label), Fn: tr.Short, Kind: "invariant", Prefix: len(tr.cmds), Goal: "false",
						Src: fmt.Sprintf("loop %d does not exist in the function any more: %s", k, cl.Src), Ctx: tr})
				}
			}
		}
	}
	// anchored asserts whose anchor was never reached (call site gone) are lost proofs
	if tr.Spec != nil {
		for _, at := range tr.Spec.Ats {
			if !tr.atsUsed[at] {
				name := tr.Short + "/at[" + at.Anchor + "]"
				if at.Kind == "assert" {
					name = tr.Short + "/assert[" + at.Label + "]"
				}
				tr.obls = append(tr.obls, &Obligation{Name: name, Fn: tr.Short, Kind: "assert", Prefix: len(tr.cmds), Goal: "false",
					Src: "anchor '" + at.Anchor + "' does not occur in the function any more: " + at.Src, Ctx: tr})
			}
		}
	}
	// vacuity canary: some return must be reachable under all assumptions
	var gs []string
	for _, r := range tr.rets {
		gs = append(gs, r.guard)
	}
	if len(gs) > 0 {
		tr.obls = append(tr.obls, &Obligation{Name: tr.Short + "/vacuity", Fn: tr.Short, Kind: "canary", Prefix: len(tr.cmds), Goal: not(or(gs...)), Src: "assumptions are not contradictory: a return is reachable", Ctx: tr})
	}
}

func isOldAddr(x, alloc0 string) string {
	return "(isold " + x + " " + alloc0 + ")"
}

type modEntry struct {
	whole bool
	objs  []Expr
}

func (tr *FnCtx) modTable(spec *FuncSpec, pkg *types.Package) map[string]*modEntry {
	tab := map[string]*modEntry{}
	for _, it := range spec.Modifies {
		cs := tr.resolveComps(it.Comp, pkg)
		if len(cs) == 0 {
			tr.specErrors = append(tr.specErrors, fmt.Sprintf("%s: modifies pattern %q matches no component", spec.Line, it.Comp))
		}
		for _, c := range cs {
			tr.regComp(c)
			me := tab[c.Name]
			if me == nil {
				me = &modEntry{}
				tab[c.Name] = me
			}
			if it.Objs == nil {
				me.whole = true
			} else {
				me.objs = append(me.objs, it.Objs...)
			}
		}
	}
	return tab
}

func frameExempt(k string) bool {
	return strings.HasPrefix(k, "L.") || strings.HasPrefix(k, "$seen") || k == "$alloc" || k == "$pub"
}

func (tr *FnCtx) frameObligations() {
	tab := tr.modTable(tr.Spec, tr.Pkg)
	a0 := tr.allocEntry
	for _, k := range sortedKeysS(tr.comps) {
		if frameExempt(k) {
			continue
		}
		me := tab[k]
		if me != nil && me.whole {
			continue
		}
		c := Comp{k, tr.comps[k], false}
		old := tr.cur(tr.entry, c)
		var parts []string
		trivial := true
		for _, r := range tr.rets {
			cur := tr.cur(r.st, c)
			if cur == old && r.st.Gen == tr.entry.Gen {
				continue
			}
			trivial = false
			if !strings.HasPrefix(c.Sort, "(Array") {
				parts = append(parts, implies(r.guard, eq(cur, old)))
				continue
			}
			cond := isOldAddr("x", a0)
			if tr.interfered {
				// other goroutines ran in between: the frame of THIS function is checked on what they cannot touch
				pub := tr.cur(r.st, compPub)
				switch {
				case strings.HasPrefix(k, "M."):
					cond = and(cond, "(or (>= x 0) (not (select "+pub+" (elemB x))))")
				case strings.HasPrefix(k, "F."), strings.HasPrefix(k, "MD."), strings.HasPrefix(k, "MV."):
					cond = and(cond, "(not (select "+pub+" x))")
				}
			}
			if me != nil {
				env := tr.newEnv(tr.entry, tr.entry, tr.params)
				for _, oe := range me.objs {
					func() {
						defer func() {
							if rec := recover(); rec != nil {
								tr.specErrors = append(tr.specErrors, fmt.Sprintf("%s: modifies object: %v", tr.Spec.Line, rec))
							}
						}()
						o := env.eval(oe)
						cond = and(cond, not(eq("x", o.A[0])))
					}()
				}
			}
			parts = append(parts, implies(r.guard, "(forall ((x Int)) (=> "+cond+" (= (select "+cur+" x) (select "+old+" x))))"))
		}
		if trivial {
			continue
		}
		tr.obls = append(tr.obls, &Obligation{Name: tr.Short + "/frame[" + shortComp(k) + "]", Fn: tr.Short, Kind: "frame", Prefix: len(tr.cmds), Goal: and(parts...),
			Src: "component " + k + " is unchanged on every object that existed at entry and is not listed in modifies", Ctx: tr})
	}
	// a havoc-all (call without modifies clause) makes every frame unprovable
	for _, r := range tr.rets {
		if r.st.Unframed {
			tr.obls = append(tr.obls, &Obligation{Name: tr.Short + "/frame[*]", Fn: tr.Short, Kind: "frame", Prefix: len(tr.cmds), Goal: not(r.guard), Src: "a call without modifies clause may change everything", Ctx: tr})
			break
		}
	}
}

func shortComp(k string) string {
	// F.github.com/Flowpack/prunner.PipelineJob.Start -> PipelineJob.Start
	if i := strings.LastIndex(k, "/"); i >= 0 {
		rest := k[i+1:]
		if j := strings.Index(rest, "."); j >= 0 {
			return k[:2] + rest[j+1:]
		}
	}
	return k
}

// ---------------------------------------------------------------- loops

func (tr *FnCtx) loopVars(li *loopInfo, phiVals map[*ssa.Phi]*Val) map[string]*Val {
	env := tr.nameEnv(li.header, 0)
	for _, in := range li.header.Instrs {
		phi, ok := in.(*ssa.Phi)
		if !ok {
			break
		}
		v := phiVals[phi]
		if v == nil {
			continue
		}
		if phi.Comment != "" {
			env[phi.Comment] = v
			if phi.Comment == "rangeindex" {
				env["$i"] = v
				env[fmt.Sprintf("$i%d", li.ordinal)] = v
			}
		}
	}
	// outer loops' range indices
	for _, other := range tr.loopOf {
		if other == li || !other.blocks[li.header] {
			continue
		}
		for _, in := range other.header.Instrs {
			if phi, ok := in.(*ssa.Phi); ok && phi.Comment == "rangeindex" {
				if v, ok := tr.vals[phi]; ok {
					env[fmt.Sprintf("$i%d", other.ordinal)] = v
				}
			}
		}
	}
	return env
}

func (tr *FnCtx) loopSpec(li *loopInfo) *LoopSpec {
	if tr.Spec == nil {
		return nil
	}
	return tr.Spec.Loops[li.ordinal]
}

func (tr *FnCtx) seenVars(li *loopInfo, st *State, env map[string]*Val) {
	for _, other := range tr.loopOf {
		if other == li || !other.blocks[li.header] {
			continue
		}
		for _, in := range other.header.Instrs {
			if nx, ok := in.(*ssa.Next); ok {
				if rg, ok := nx.Iter.(*ssa.Range); ok {
					if c, ok := tr.rangeSeen[rg]; ok {
						env[fmt.Sprintf("$seen%d", other.ordinal)] = &Val{T: nil, GhostElem: tBool, A: []string{tr.cur(st, c)}}
					}
				}
			}
		}
	}
	// $seen: ghost set of the map-range iterator whose Next is in this loop's header
	for _, in := range li.header.Instrs {
		if nx, ok := in.(*ssa.Next); ok {
			if rg, ok := nx.Iter.(*ssa.Range); ok {
				if c, ok := tr.rangeSeen[rg]; ok {
					env["$seen"] = &Val{T: nil, GhostElem: tBool, A: []string{tr.cur(st, c)}}
				}
			}
		}
	}
}

func (tr *FnCtx) loopEntry(li *loopInfo, st *State, entryVals map[*ssa.Phi]*Val) {
	tr.runAts(st, fmt.Sprintf("loop %d", li.ordinal), nil)
	ls := tr.loopSpec(li)
	li.preState = st.clone()
	if ls == nil {
		if tr.Spec != nil {
			tr.note(fmt.Sprintf("loop %d has no invariant (treated as 'true')", li.ordinal))
		}
		return
	}
	vars := tr.loopVars(li, entryVals)
	tr.seenVars(li, st, vars)
	env := tr.newEnv(st, tr.entry, vars)
	for _, cl := range ls.Invariants {
		tr.oblige(fmt.Sprintf("%s/loop%d/inv-entry[%s]", tr.Short, li.ordinal, cl.Label), "invariant", tr.evalClause(env, cl), cl.Src)
	}
}

func (tr *FnCtx) loopAssume(li *loopInfo, st *State) {
	// automatic frame invariants: entry obligation (on the state before the havoc) and assumption
	if li.preState != nil {
		saved := li.havocked
		for _, f := range tr.autoFrame(li, li.preState) {
			tr.oblige(fmt.Sprintf("%s/loop%d/frame-entry", tr.Short, li.ordinal), "frame", f, "automatic loop frame: components not listed in modifies are unchanged on pre-existing objects")
		}
		li.havocked = saved
		for _, f := range tr.autoFrame(li, st) {
			tr.assume(f)
		}
	}
	ls := tr.loopSpec(li)
	if ls == nil {
		return
	}
	vars := tr.loopVars(li, li.phiFresh)
	tr.seenVars(li, st, vars)
	env := tr.newEnv(st, tr.entry, vars)
	for _, cl := range ls.Invariants {
		tr.assume(tr.evalClause(env, cl))
	}
}

func (tr *FnCtx) loopBack(li *loopInfo, from *ssa.BasicBlock, st *State) {
	{
		saved := tr.guard
		tr.guard = tr.edgeCond(from, li.header)
		for _, f := range tr.autoFrame(li, st) {
			tr.oblige(fmt.Sprintf("%s/loop%d/frame-preserved", tr.Short, li.ordinal), "frame", f, "automatic loop frame: components not listed in modifies are unchanged on pre-existing objects")
		}
		tr.guard = saved
	}
	ls := tr.loopSpec(li)
	if ls == nil {
		return
	}
	idx := -1
	for i, p := range li.header.Preds {
		if p == from {
			idx = i
		}
	}
	phiVals := map[*ssa.Phi]*Val{}
	for _, in := range li.header.Instrs {
		phi, ok := in.(*ssa.Phi)
		if !ok {
			break
		}
		phiVals[phi] = tr.val(phi.Edges[idx])
	}
	saved := tr.guard
	tr.guard = tr.edgeCond(from, li.header)
	vars := tr.loopVars(li, phiVals)
	tr.seenVars(li, st, vars)
	env := tr.newEnv(st, tr.entry, vars)
	for _, cl := range ls.Invariants {
		tr.oblige(fmt.Sprintf("%s/loop%d/inv-preserved[%s]", tr.Short, li.ordinal, cl.Label), "invariant", tr.evalClause(env, cl), cl.Src)
	}
	tr.guard = saved
}

// storeTargets computes statically which components a store through addr can change.
func (tr *FnCtx) storeTargets(addr ssa.Value) ([]Comp, bool) {
	pt, ok := addr.Type().Underlying().(*types.Pointer)
	if !ok {
		return nil, false
	}
	content := pt.Elem()
	prefix := ""
	cur := addr
	for {
		switch x := cur.(type) {
		case *ssa.FieldAddr:
			st := x.X.Type().Underlying().(*types.Pointer).Elem().Underlying().(*types.Struct)
			prefix = joinPath(st.Field(x.Field).Name(), prefix)
			cur = x.X
			continue
		case *ssa.Alloc:
			if !x.Heap {
				id := sanitize(x.Comment) + "_" + x.Name()
				var out []Comp
				for _, a := range tr.W.flatten(content) {
					out = append(out, Comp{"L." + id + "." + joinPath(prefix, a.Path), a.Sort, false})
				}
				return out, true
			}
		}
		break
	}
	if prefix == "" {
		return tr.W.cellComps(content), true
	}
	root := cur.Type().Underlying().(*types.Pointer).Elem()
	return tr.W.fieldComps(root, prefix, content), true
}

// loopInterferes: the loop body acquires the monitor lock or calls a callee that does (lockmode none), i.e. between
// two iterations this goroutine does not hold the lock and other critical sections may run.
func (tr *FnCtx) loopInterferes(li *loopInfo) bool {
	if !tr.lockSweep || !tr.hasRelies() {
		return false
	}
	for b := range li.blocks {
		for _, in := range b.Instrs {
			ci, ok := in.(ssa.CallInstruction)
			if !ok {
				continue
			}
			if _, isGo := in.(*ssa.Go); isGo {
				continue
			}
			c := ci.Common()
			if c.IsInvoke() {
				continue
			}
			f, _ := tr.calleeOf(c)
			if f == nil {
				continue
			}
			switch f.String() {
			case "(*sync.RWMutex).Lock", "(*sync.RWMutex).RLock", "(*sync.Mutex).Lock":
				return true
			}
			if pk := fnPkg(f); pk != nil && pk.Pkg.Path() == tr.Pkg.Path() {
				if spec := tr.W.C.Funcs[pkgKey(pk.Pkg.Path(), fnRelName(f))]; spec != nil && tr.lockModeOf(spec, f) == "none" {
					return true
				}
			}
		}
	}
	return false
}

func (tr *FnCtx) havocLoop(li *loopInfo, st *State) {
	mods := map[string]Comp{}
	all := false
	addC := func(cs ...Comp) {
		for _, c := range cs {
			mods[c.Name] = c
		}
	}
	var blocks []*ssa.BasicBlock
	for b := range li.blocks {
		blocks = append(blocks, b)
	}
	sort.Slice(blocks, func(i, j int) bool { return blocks[i].Index < blocks[j].Index })
	for _, b := range blocks {
		for _, in := range b.Instrs {
			switch x := in.(type) {
			case *ssa.Store:
				cs, ok := tr.storeTargets(x.Addr)
				if !ok {
					all = true
				}
				addC(cs...)
				addC(compPub)
			case *ssa.MapUpdate:
				addC(tr.W.mapDomComp(x.Map.Type()))
				addC(tr.W.mapValComps(x.Map.Type())...)
				addC(compPub)
			case *ssa.Alloc:
				et := x.Type().(*types.Pointer).Elem()
				if x.Heap {
					addC(compAlloc, compPub)
					if _, isArr := et.Underlying().(*types.Array); !isArr || tr.W.isOpaqueNamed(et) {
						addC(tr.W.cellComps(et)...)
					}
					if stru, ok := structOf(et); ok && tr.W.isOpaqueNamed(et) {
						for i := 0; i < stru.NumFields(); i++ {
							addC(tr.W.fieldComps(et, stru.Field(i).Name(), stru.Field(i).Type())...)
						}
					}
				} else {
					cs, _ := tr.storeTargets(x)
					addC(cs...)
				}
			case *ssa.MakeSlice:
				addC(compAlloc, compPub)
				addC(tr.W.cellComps(x.Type().Underlying().(*types.Slice).Elem())...)
			case *ssa.MakeMap:
				addC(compAlloc, compPub, tr.W.mapDomComp(x.Type()))
			case *ssa.MakeChan:
				addC(compAlloc, compPub)
			case *ssa.MakeClosure, *ssa.MakeInterface:
				addC(compPub)
			case *ssa.Range:
				addC(Comp{"$seen." + x.Name(), "(Array Int Bool)", false})
			case *ssa.Next:
				if rg, ok := x.Iter.(*ssa.Range); ok {
					addC(Comp{"$seen." + rg.Name(), "(Array Int Bool)", false})
				}
			case *ssa.Defer:
				tr.note("defer inside a loop is not supported")
				tr.unsupported = append(tr.unsupported, "defer in loop")
				all = true
			case *ssa.Go:
				// the spawned function runs concurrently; the spawner's sequential skeleton sees no effect
			case ssa.CallInstruction:
				cs, a := tr.callMods(x.Common())
				if a {
					all = true
				}
				addC(cs...)
			}
		}
	}
	// ghost variables assigned by anchored 'ghost' statements of this function may change in any loop of it
	// (the anchor may lie inside the loop): havoc them at every loop head (over-approximation)
	if tr.Spec != nil {
		for _, at := range tr.Spec.Ats {
			if at.Kind != "ghost" {
				continue
			}
			name := ""
			switch l := at.Target.(type) {
			case EIdent:
				name = l.Name
			case EIdx:
				if id, ok := l.X.(EIdent); ok {
					name = id.Name
				}
			}
			if name != "" {
				func() {
					defer func() { recover() }()
					addC(tr.resolveComps(name, tr.Pkg)...)
				}()
			}
		}
	}
	if all {
		tr.havocAll(st)
		tr.note(fmt.Sprintf("loop %d contains a call that may modify everything: whole state havocked at the loop head", li.ordinal))
		return
	}
	var ks []string
	for k := range mods {
		ks = append(ks, k)
	}
	sort.Strings(ks)
	for _, k := range ks {
		c := mods[k]
		old := tr.cur(st, c)
		nw := tr.havocComp(st, c)
		if k == "$alloc" || k == "$clock" {
			// allocation counter and ghost clock only grow
			tr.assume("(>= " + nw + " " + old + ")")
		}
		li.havocked = append(li.havocked, c)
	}
}

// autoFrame: for a function with a modifies clause, every component a loop may change and that the
// clause does not list must stay unchanged on the objects that existed at function entry. These
// automatic invariants are assumed at the loop head and proved at entry and on every back edge.
func (tr *FnCtx) autoFrame(li *loopInfo, st *State) []string {
	if tr.Spec == nil || !tr.Spec.HasMod || tr.Spec.Trusted {
		return nil
	}
	if tr.modTab == nil {
		tr.modTab = tr.modTable(tr.Spec, tr.Pkg)
	}
	var out []string
	for _, c := range li.havocked {
		if frameExempt(c.Name) || !strings.HasPrefix(c.Sort, "(Array") {
			continue
		}
		me := tr.modTab[c.Name]
		if me != nil && me.whole {
			continue
		}
		var objs []string
		if me != nil {
			env := tr.newEnv(tr.entry, tr.entry, tr.params)
			ok := true
			for _, oe := range me.objs {
				func() {
					defer func() {
						if recover() != nil {
							ok = false
						}
					}()
					objs = append(objs, env.eval(oe).A[0])
				}()
			}
			if !ok {
				continue
			}
		}
		out = append(out, tr.sameOn(tr.cur(st, c), tr.cur(tr.entry, c), c.Sort, tr.allocEntry, objs))
	}
	return out
}

// ---------------------------------------------------------------- lock discipline

type lockCfg struct {
	domain     map[string]bool // typeKey of struct types whose fields are guarded by default
	immutable  map[string]bool // typeKey.path
	unguarded  map[string]bool // typeKey.path
	guardedMap map[string]bool // typeKey of map types
	guardedMem map[string]bool // typeKey of cell pointee types
	pkgs       map[string]bool
}

func (w *World) lockConfig() *lockCfg {
	if w.lock != nil {
		return w.lock
	}
	lc := &lockCfg{domain: map[string]bool{}, immutable: map[string]bool{}, unguarded: map[string]bool{}, guardedMap: map[string]bool{}, guardedMem: map[string]bool{}, pkgs: map[string]bool{}}
	res := func(pt PkgText) (types.Type, bool) {
		p := w.Pkgs[pt.Pkg]
		if p == nil {
			return nil, false
		}
		t, err := w.parseType(p.Types, pt.Text)
		if err != nil {
			fmt.Printf("contract error: lock declaration %q: %v\n", pt.Text, err)
			return nil, false
		}
		return t, true
	}
	for _, pt := range w.C.LockDomain {
		if t, ok := res(pt); ok {
			lc.domain[w.typeKey(t)] = true
			lc.pkgs[pt.Pkg] = true
		}
	}
	field := func(pt PkgText, m map[string]bool) {
		k := strings.Index(pt.Text, ".")
		if k < 0 {
			return
		}
		if t, ok := res(PkgText{pt.Pkg, pt.Text[:k]}); ok {
			m[w.typeKey(t)+"."+pt.Text[k+1:]] = true
		}
	}
	for _, pt := range w.C.Immutable {
		field(pt, lc.immutable)
	}
	for _, pt := range w.C.Unguarded {
		field(pt, lc.unguarded)
	}
	for _, pt := range w.C.GuardedMap {
		if t, ok := res(pt); ok {
			lc.guardedMap[w.typeKey(t)] = true
		}
	}
	for _, pt := range w.C.GuardedMem {
		if t, ok := res(pt); ok {
			lc.guardedMem[w.typeKey(t)] = true
		}
	}
	w.lock = lc
	return lc
}

func (w *World) inLockPkg(pkg string) bool { return w.lockConfig().pkgs[pkg] }

func firstSeg(p string) string {
	if i := strings.IndexAny(p, ".#"); i >= 0 {
		return p[:i]
	}
	return p
}

// lockAccess records the lock obligation of a load/store through p.
func (tr *FnCtx) lockAccess(st *State, p *Val, write bool, in ssa.Instruction) {
	if !tr.lockSweep {
		return
	}
	lc := tr.W.lockConfig()
	held := tr.cur(st, compHeld)
	pub := tr.cur(st, compPub)
	var cond, desc string
	if p.Loc != nil && p.Loc.Kind == LField {
		tk := tr.W.typeKey(p.Loc.S)
		if !lc.domain[tk] {
			return
		}
		fkey := tk + "." + firstSeg(p.Loc.Prefix)
		full := tk + "." + p.Loc.Prefix
		if lc.unguarded[fkey] || lc.unguarded[full] {
			return
		}
		if !write && tr.Spec != nil {
			for _, ar := range tr.Spec.AllowRead {
				if strings.HasSuffix(tk+"."+p.Loc.Prefix, "."+ar) {
					tr.assumesUsed = append(tr.assumesUsed, tr.Short+": unguarded read of "+ar+" (declared allowread)")
					return
				}
			}
		}
		exempt := "(or " + not(sel(pub, p.Loc.Obj)) + " (and (< " + p.Loc.Obj + " 0) (>= (elemB " + p.Loc.Obj + ") " + tr.allocEntry + ")))"
		desc = fmt.Sprintf("%s of %s.%s", rw(write), shortType(tk), p.Loc.Prefix)
		if lc.immutable[fkey] || lc.immutable[full] {
			if !write {
				return
			}
			cond = exempt
			desc += " (immutable after publication)"
		} else if write {
			cond = or(eq(held, "2"), exempt)
		} else {
			cond = or("(>= "+held+" 1)", exempt)
		}
	} else if p.Loc == nil && len(p.A) == 1 {
		pt, ok := p.T.Underlying().(*types.Pointer)
		if !ok {
			return
		}
		tk := tr.W.typeKey(pt.Elem())
		if !lc.guardedMem[tk] {
			return
		}
		a := p.A[0]
		// cells at non-negative addresses are variables (e.g. captured locals), not slice elements
		exempt := "(or (>= " + a + " 0) (>= (elemB " + a + ") " + tr.allocEntry + "))"
		desc = fmt.Sprintf("%s of a %s cell", rw(write), shortType(tk))
		if write {
			cond = or(eq(held, "2"), exempt)
		} else {
			cond = or("(>= "+held+" 1)", exempt)
		}
	} else {
		return
	}
	desc += " at " + tr.W.Prog.Fset.Position(in.Pos()).String()
	if write {
		tr.lockWrites = append(tr.lockWrites, accessSite{tr.guard, cond, desc})
	} else {
		tr.lockReads = append(tr.lockReads, accessSite{tr.guard, cond, desc})
	}
}

func rw(w bool) string {
	if w {
		return "write"
	}
	return "read"
}

func shortType(k string) string {
	if i := strings.LastIndex(k, "/"); i >= 0 {
		return k[i+1:]
	}
	return k
}

func (tr *FnCtx) lockMap(st *State, mt types.Type, write bool, in ssa.Instruction) {
	if !tr.lockSweep {
		return
	}
	lc := tr.W.lockConfig()
	tk := tr.W.typeKey(mt)
	if !lc.guardedMap[tk] {
		return
	}
	var m string
	switch x := in.(type) {
	case *ssa.Lookup:
		m = tr.val(x.X).one()
	case *ssa.MapUpdate:
		m = tr.val(x.Map).one()
	case *ssa.Next:
		m = tr.val(x.Iter.(*ssa.Range).X).one()
	case ssa.CallInstruction: // delete / len
		m = tr.val(x.Common().Args[0]).one()
	default:
		return
	}
	held := tr.cur(st, compHeld)
	exempt := not(sel(tr.cur(st, compPub), m))
	desc := fmt.Sprintf("%s of map %s at %s", rw(write), shortType(tk), tr.W.Prog.Fset.Position(in.Pos()))
	if write {
		tr.lockWrites = append(tr.lockWrites, accessSite{tr.guard, or(eq(held, "2"), exempt), desc})
	} else {
		tr.lockReads = append(tr.lockReads, accessSite{tr.guard, or("(>= "+held+" 1)", exempt), desc})
	}
}

// ---------------------------------------------------------------- calls

func (tr *FnCtx) calleeOf(c *ssa.CallCommon) (*ssa.Function, []*Val) {
	if c.IsInvoke() {
		return nil, nil
	}
	if f := c.StaticCallee(); f != nil {
		if mc, ok := c.Value.(*ssa.MakeClosure); ok {
			var b []*Val
			for _, x := range mc.Bindings {
				b = append(b, tr.val(x))
			}
			return f, b
		}
		return f, nil
	}
	if v, ok := tr.vals[c.Value]; ok && v.Clos != nil {
		return v.Clos.Fn, v.Clos.Bindings
	}
	return nil, nil
}

func isLogPkg(path string) bool {
	return strings.HasPrefix(path, "github.com/apex/log")
}

var pureExternalPrefixes = []string{"fmt.", "errors.", "github.com/friendsofgo/errors.", "github.com/pkg/errors.", "(github.com/gofrs/uuid.", "github.com/gofrs/uuid.",
	"path.", "strings.", "strconv.", "(time.Time).", "(time.Duration).", "time.Since", "time.Now", "time.Sleep", "time.After", "context.", "(context.",
	"(*github.com/friendsofgo/errors.", "(error).Error", "(*sync.WaitGroup).", "sync/atomic.", "(*sync.Mutex).", "(*sync.Once).", "os.", "(*os.File).", "math.", "unicode.", "bytes.",
	"gopkg.in/yaml.v2.NewDecoder", "github.com/taskctl/taskctl/pkg/", "(*github.com/taskctl/taskctl/pkg/", "(github.com/taskctl/taskctl/pkg/", "(context.Context)."}

// callMods returns statically the components a call may modify (for loop havoc), or all=true.
func (tr *FnCtx) callMods(c *ssa.CallCommon) ([]Comp, bool) {
	if b, ok := c.Value.(*ssa.Builtin); ok {
		switch b.Name() {
		case "append":
			et := c.Args[0].Type().Underlying().(*types.Slice).Elem()
			return append(tr.W.cellComps(et), compAlloc, compPub), false
		case "copy":
			if sl, ok := c.Args[0].Type().Underlying().(*types.Slice); ok {
				return tr.W.cellComps(sl.Elem()), false
			}
			return nil, true
		case "delete":
			// delete resets the value components of the key to zero (default-zero normal form), so it writes them too
			return append([]Comp{tr.W.mapDomComp(c.Args[0].Type())}, tr.W.mapValComps(c.Args[0].Type())...), false
		}
		return nil, false
	}
	if c.IsInvoke() {
		if h := externFor(c.Method.FullName()); h != nil {
			return tr.patComps(h.mods), false
		}
		if spec := tr.W.C.Funcs["iface::"+c.Method.FullName()]; spec != nil {
			return tr.specMods(spec, tr.W.Pkgs[spec.Pkg].Types)
		}
		for _, p := range pureExternalPrefixes {
			if strings.HasPrefix(c.Method.FullName(), p) {
				return nil, false
			}
		}
		return nil, true
	}
	f, _ := tr.calleeOf(c)
	if f == nil {
		if _, isParam := c.Value.(*ssa.Parameter); isParam {
			// callbacks: assumed not to modify modelled state (listed assumption), except variables whose address they get
			var cs []Comp
			for _, a := range c.Args {
				cs = append(cs, tr.callbackPointeeComps(a)...)
			}
			return cs, false
		}
		if fieldFuncName(c.Value) != "" {
			return nil, false
		}
		return nil, true
	}
	pk := fnPkg(f)
	if pk != nil && isLogPkg(pk.Pkg.Path()) {
		return nil, false
	}
	if pk != nil {
		if spec := tr.W.C.Funcs[pkgKey(pk.Pkg.Path(), fnRelName(f))]; spec != nil {
			return tr.specMods(spec, pk.Pkg)
		}
	}
	if h := externFor(f.String()); h != nil {
		if f.String() == "sort.Sort" {
			for _, in := range []ssa.Instruction{} {
				_ = in
			}
			if mi, ok := c.Args[0].(*ssa.MakeInterface); ok {
				_ = mi
			}
			return tr.sortSortModsCommon(c)
		}
		if strings.HasPrefix(f.String(), "sort.") && len(c.Args) > 0 {
			var sv ssa.Value = c.Args[0]
			if mi, ok := sv.(*ssa.MakeInterface); ok {
				sv = mi.X
			}
			if sl, ok := sv.Type().Underlying().(*types.Slice); ok {
				return tr.W.cellComps(sl.Elem()), false
			}
			return nil, true
		}
		return tr.patComps(h.mods), false
	}
	for _, p := range pureExternalPrefixes {
		if strings.HasPrefix(f.String(), p) {
			return nil, false
		}
	}
	return nil, true
}

// fieldFuncName: the value is a function loaded from a struct field (injected dependency), or a free variable holding one.
func fieldFuncName(v ssa.Value) string {
	if u, ok := v.(*ssa.UnOp); ok {
		if fa, ok := u.X.(*ssa.FieldAddr); ok {
			st := fa.X.Type().Underlying().(*types.Pointer).Elem().Underlying().(*types.Struct)
			return st.Field(fa.Field).Name()
		}
		if fv, ok := u.X.(*ssa.FreeVar); ok {
			return fv.Name()
		}
		if al, ok := u.X.(*ssa.Alloc); ok {
			return al.Comment
		}
	}
	return ""
}

func (tr *FnCtx) patComps(pats []string) []Comp {
	var out []Comp
	for _, p := range pats {
		out = append(out, tr.resolveComps(p, tr.Pkg)...)
	}
	return out
}

func (tr *FnCtx) specMods(spec *FuncSpec, pkg *types.Package) ([]Comp, bool) {
	if !spec.HasMod {
		return nil, true
	}
	var out []Comp
	for _, it := range spec.Modifies {
		out = append(out, tr.resolveComps(it.Comp, pkg)...)
	}
	out = append(out, compAlloc)
	return out, false
}

func (tr *FnCtx) call(st *State, c *ssa.CallCommon, instr ssa.Instruction, mode string) *Val {
	var resT types.Type
	if v, ok := instr.(ssa.Value); ok {
		resT = v.Type()
	} else {
		resT = types.NewTuple()
	}
	fresh := func(base string) *Val {
		if tup, ok := resT.(*types.Tuple); ok && tup.Len() == 0 {
			return &Val{T: resT}
		}
		return tr.freshVal(resT, base)
	}
	if b, ok := c.Value.(*ssa.Builtin); ok {
		return tr.builtin(st, b, c, instr, resT)
	}
	var args []*Val
	for _, a := range c.Args {
		args = append(args, tr.val(a))
	}
	if c.IsInvoke() {
		name := c.Method.FullName()
		recv := tr.val(c.Value)
		if h := externFor(name); h != nil {
			return h.fn(tr, st, append([]*Val{recv}, args...), resT, instr, mode)
		}
		if spec := tr.W.C.Funcs["iface::"+name]; spec != nil {
			return tr.applyContract(st, nil, spec, c.Method, append([]*Val{recv}, args...), nil, resT, instr, mode)
		}
		for _, p := range pureExternalPrefixes {
			if strings.HasPrefix(name, p) {
				tr.externUsed["pure-external: "+name] = true
				return fresh("ext")
			}
		}
		tr.note("interface call without contract: " + name + " (everything havocked)")
		if mode != "go" {
			tr.havocAllKeepHeld(st, c.Method.Pkg())
		}
		return fresh("inv")
	}
	f, bindings := tr.calleeOf(c)
	if f == nil {
		if _, isParam := c.Value.(*ssa.Parameter); isParam {
			tr.note("call of function-typed parameter " + c.Value.Name() + ": assumed not to modify modelled state (except variables whose address it is given)")
			tr.callbackCalls = append(tr.callbackCalls, c.Value.Name())
			// anchor "call param <name>#k": ghost updates/assertions at the call of a function-typed parameter
			tr.callCount["prm:"+c.Value.Name()]++
			tr.runAts(st, fmt.Sprintf("%s param %s#%d", modeWord(mode), c.Value.Name(), tr.callCount["prm:"+c.Value.Name()]), nil)
			// a callback that is handed the address of a variable may write it (yaml's unmarshal(&name))
			for _, a := range c.Args {
				for _, cc := range tr.callbackPointeeComps(a) {
					addr := tr.val(stripIface(a)).one()
					tr.set(st, cc, store(tr.cur(st, cc), addr, tr.freshConst("cbw", elemSort(cc.Sort))))
				}
			}
			return fresh("cb")
		}
		if fname := fieldFuncName(c.Value); fname != "" {
			tr.note("call of injected function field " + fname + ": assumed not to modify modelled state")
			tr.callbackCalls = append(tr.callbackCalls, "field "+fname)
			// anchor "call field <name>#k": ghost updates/assertions at the call of an injected function field
			tr.callCount["fld:"+fname]++
			tr.runAts(st, fmt.Sprintf("%s field %s#%d", modeWord(mode), fname, tr.callCount["fld:"+fname]), nil)
			r := fresh("cbf")
			tr.resolveDynamicCall(st, c, args, r)
			return r
		}
		tr.note("call of unknown function value " + c.Value.Name() + " (everything havocked)")
		if mode != "go" {
			tr.havocAll(st)
		}
		return fresh("dyn")
	}
	pk := fnPkg(f)
	if pk != nil && isLogPkg(pk.Pkg.Path()) {
		return fresh("log")
	}
	for _, a := range args {
		if mode == "go" {
			tr.publish(st, a)
		}
	}
	if pk != nil {
		if spec := tr.W.C.Funcs[pkgKey(pk.Pkg.Path(), fnRelName(f))]; spec != nil {
			return tr.applyContract(st, f, spec, nil, args, bindings, resT, instr, mode)
		}
	}
	// anchors also work for callees without a contract in the files (extern table, pure externals): "call <Name>#k"
	{
		nm := f.Name()
		tr.callCount["ext:"+nm]++
		tr.runAts(st, fmt.Sprintf("%s %s#%d", modeWord(mode), nm, tr.callCount["ext:"+nm]), nil)
	}
	if h := externFor(f.String()); h != nil {
		return h.fn(tr, st, args, resT, instr, mode)
	}
	for _, p := range pureExternalPrefixes {
		if strings.HasPrefix(f.String(), p) {
			tr.externUsed["pure-external: "+f.String()] = true
			return fresh("ext")
		}
	}
	if pk != nil && tr.W.isLocalPkg(pk.Pkg) {
		tr.note("call of " + f.String() + " which has no contract (everything havocked)")
		if mode != "go" {
			tr.havocAll(st)
		}
	} else {
		tr.note("call of external " + f.String() + " without extern contract (everything havocked except the caller's lock state)")
		if mode != "go" {
			var tp *types.Package
			if pk != nil {
				tp = pk.Pkg
			}
			tr.havocAllKeepHeld(st, tp)
		}
	}
	return fresh("call")
}

// applyContract: assert pre, havoc frame, assume post.
func (tr *FnCtx) applyContract(st *State, f *ssa.Function, spec *FuncSpec, method *types.Func, args []*Val, bindings []*Val, resT types.Type, instr ssa.Instruction, mode string) *Val {
	var pkg *types.Package
	var calleeName string
	vars := map[string]*Val{}
	var resNames []string
	var resTypes *types.Tuple
	if f != nil {
		pkg = fnPkg(f).Pkg
		calleeName = fnRelName(f)
		for i, p := range f.Params {
			if i < len(args) {
				vars[p.Name()] = &Val{T: p.Type(), A: args[i].A, Loc: args[i].Loc, Clos: args[i].Clos}
			}
		}
		for i, fv := range f.FreeVars {
			if i < len(bindings) {
				vars[fv.Name()] = &Val{T: fv.Type(), A: bindings[i].A, Loc: bindings[i].Loc, Clos: bindings[i].Clos, AutoDeref: f.Parent() != nil && !strings.HasSuffix(f.Name(), "$bound")}
			}
		}
		resNames = resultNames(f)
		resTypes = f.Signature.Results()
	} else {
		pkg = method.Pkg()
		if p := tr.W.Pkgs[spec.Pkg]; p != nil {
			pkg = p.Types
		}
		calleeName = method.Name()
		sig := method.Type().(*types.Signature)
		vars["recv"] = args[0]
		for i := 0; i < sig.Params().Len(); i++ {
			n := sig.Params().At(i).Name()
			if n == "" {
				n = fmt.Sprintf("arg%d", i)
			}
			if i+1 < len(args) {
				vars[n] = &Val{T: sig.Params().At(i).Type(), A: args[i+1].A, Loc: args[i+1].Loc}
			}
		}
		resTypes = sig.Results()
		for i := 0; i < resTypes.Len(); i++ {
			n := resTypes.At(i).Name()
			if n == "" {
				if resTypes.Len() == 1 {
					n = "res"
				} else {
					n = fmt.Sprintf("res%d", i)
				}
			}
			resNames = append(resNames, n)
		}
	}
	tr.callCount[calleeName]++
	k := tr.callCount[calleeName]
	pre := st.clone()
	prefixBefore := len(tr.cmds)
	env := &Env{tr: tr, vars: vars, st: pre, old: pre, pkg: pkg, allocOld: tr.cur(pre, compAlloc)}
	tr.runAts(st, fmt.Sprintf("%s %s#%d", modeWord(mode), calleeName, k), vars)
	// lock mode of the callee
	if f != nil && mode != "go" {
		lm := tr.lockModeOf(spec, f)
		if lm != "any" && tr.lockSweep {
			tr.oblige(fmt.Sprintf("%s/call-pre[%s.lockmode]#%d", tr.Short, calleeName, k), "call-pre", heldCond(lm, tr.cur(st, compHeld)), "callee requires lock mode "+lm)
		}
	}
	for _, cl := range spec.Requires {
		tr.oblige(fmt.Sprintf("%s/call-pre[%s.%s]#%d", tr.Short, calleeName, cl.Label, k), "call-pre", tr.evalClause(env, cl), cl.Src)
	}
	if mode == "go" {
		return &Val{T: resT}
	}
	// interference around a callee that takes the monitor lock itself (lockmode none: the caller does not hold it,
	// proved as call-pre[.lockmode]): the callee's contract describes its critical section as one atomic step, so
	// other critical sections may run between the call and the callee's acquisition, and again after its release
	interfere := f != nil && tr.lockSweep && tr.lockModeOf(spec, f) == "none" && pkg.Path() == tr.Pkg.Path() && tr.hasRelies()
	if interfere {
		tr.interference(st, vars)
		pre = st.clone()
		env = &Env{tr: tr, vars: vars, st: pre, old: pre, pkg: pkg, allocOld: tr.cur(pre, compAlloc)}
	}
	// havoc
	if !spec.HasMod {
		tr.havocAll(st)
		tr.note("contract of " + calleeName + " has no modifies clause: everything havocked at the call")
	} else {
		a0 := tr.cur(st, compAlloc)
		na := tr.havocComp(st, compAlloc)
		tr.assume("(>= " + na + " " + a0 + ")")
		tab := tr.modTable(spec, pkg)
		var ks []string
		for kk := range tab {
			ks = append(ks, kk)
		}
		sort.Strings(ks)
		for _, kk := range ks {
			me := tab[kk]
			c := Comp{kk, tr.comps[kk], false}
			if kk == "$alloc" {
				continue
			}
			if me.whole || !strings.HasPrefix(c.Sort, "(Array") {
				if kk == "$clock" {
					clockTick(tr, st)
					continue
				}
				tr.havocComp(st, c)
				continue
			}
			t := tr.cur(st, c)
			es := elemSort(c.Sort)
			if kk == "$alloc" {
				continue
			}
			for _, oe := range me.objs {
				o := env.eval(oe)
				fv := tr.freshConst("hv", es)
				t = store(t, o.A[0], fv)
				if tr.compRef[kk] {
					if strings.HasPrefix(es, "(Array") {
						tr.assume(fmt.Sprintf("(forall ((k Int)) (! (and (<= 0 (select %s k)) (< (select %s k) %s)) :pattern ((select %s k))))", fv, fv, na, fv))
					} else {
						tr.assume("(isold " + fv + " " + na + ")")
					}
				}
			}
			tr.set(st, c, t)
		}
	}
	// results
	res := &Val{T: resT}
	post := &Env{tr: tr, vars: map[string]*Val{}, st: st, old: pre, pkg: pkg, allocOld: tr.cur(pre, compAlloc), assuming: true}
	for kk, v := range vars {
		post.vars[kk] = v
	}
	if resTypes != nil && resTypes.Len() == 1 {
		res = tr.freshVal(resTypes.At(0).Type(), "r_"+sanitize(calleeName))
		res.T = resT
		post.vars[resNames[0]] = &Val{T: resTypes.At(0).Type(), A: res.A}
		post.vars["res"] = post.vars[resNames[0]]
		tr.assumeLoaded(st, post.vars["res"])
	} else if resTypes != nil && resTypes.Len() > 1 {
		for i := 0; i < resTypes.Len(); i++ {
			rv := tr.freshVal(resTypes.At(i).Type(), "r_"+sanitize(calleeName))
			res.Tuple = append(res.Tuple, rv)
			post.vars[resNames[i]] = rv
			post.vars[fmt.Sprintf("res%d", i)] = rv
			tr.assumeLoaded(st, rv)
		}
	}
	for _, cl := range spec.Ensures {
		tr.assume(tr.evalClause(post, cl))
	}
	// vacuity canary: the assumed postcondition must not make the continuation unreachable
	if tr.guard != "false" && !tr.inGuardedDefer {
		tr.obls = append(tr.obls, &Obligation{Name: tr.Short + "/vacuity-calls", Fn: tr.Short, Kind: "canary2", Prefix: len(tr.cmds), PrefixBefore: prefixBefore, Goal: not(tr.guard),
			Src: fmt.Sprintf("the assumed contract of %s (call #%d) does not make a reachable call site unreachable", calleeName, k), Ctx: tr})
	}
	tr.runAts(st, fmt.Sprintf("after %s#%d", calleeName, k), post.vars)
	if interfere {
		held := tr.cur(st, compHeld)
		tr.interference(st, vars)
		st.Comps[compHeld.Name] = held
	}
	if f != nil && tr.lockSweep {
		// balanced lock protocol of the callee (proved for it as lockproto[balanced])
		if _, listed := tr.modTable(spec, pkg)["$held"]; !listed || !spec.HasMod {
			tr.assume(eq(tr.cur(st, compHeld), tr.cur(pre, compHeld)))
		}
	}
	return res
}

// resolveDynamicCall: a call through a function value v. For every package-level function g of the same package with an
// identical signature, a contract and `modifies nothing`: if v == g, the call is a call of g, so g's preconditions are
// obligations (under that guard) and g's postconditions hold for the result (under that guard). Nothing is assumed for
// other values of v (the result stays unconstrained).
func (tr *FnCtx) resolveDynamicCall(st *State, c *ssa.CallCommon, args []*Val, r *Val) {
	sig, ok := c.Value.Type().Underlying().(*types.Signature)
	if !ok || tr.Fn == nil || tr.Fn.Pkg == nil {
		return
	}
	v := tr.val(c.Value).one()
	var names []string
	for n := range tr.Fn.Pkg.Members {
		names = append(names, n)
	}
	sort.Strings(names)
	for _, n := range names {
		g, ok := tr.Fn.Pkg.Members[n].(*ssa.Function)
		if !ok || g.Signature.Recv() != nil || !types.Identical(g.Signature, sig) {
			continue
		}
		spec := tr.W.C.Funcs[pkgKey(g.Pkg.Pkg.Path(), fnRelName(g))]
		if spec == nil || !spec.HasMod || len(spec.Modifies) != 0 || spec.Trusted {
			continue
		}
		guard := eq(v, tr.fnConst(g))
		vars := map[string]*Val{}
		for i, p := range g.Params {
			if i < len(args) {
				vars[p.Name()] = &Val{T: p.Type(), A: args[i].A, Loc: args[i].Loc, Clos: args[i].Clos}
			}
		}
		env := &Env{tr: tr, vars: vars, st: st, old: st, pkg: g.Pkg.Pkg, allocOld: tr.cur(st, compAlloc)}
		tr.callCount["dyn:"+g.Name()]++
		k := tr.callCount["dyn:"+g.Name()]
		for _, cl := range spec.Requires {
			tr.oblige(fmt.Sprintf("%s/call-pre[%s.%s]#dyn%d", tr.Short, g.Name(), cl.Label, k), "call-pre", implies(guard, tr.evalClause(env, cl)), cl.Src+" (dynamic call resolved to "+g.Name()+")")
		}
		post := &Env{tr: tr, vars: map[string]*Val{}, st: st, old: st, pkg: g.Pkg.Pkg, allocOld: tr.cur(st, compAlloc), assuming: true}
		for kk, vv := range vars {
			post.vars[kk] = vv
		}
		if g.Signature.Results().Len() == 1 {
			rv := &Val{T: g.Signature.Results().At(0).Type(), A: r.A}
			post.vars["res"] = rv
			if rn := resultNames(g); len(rn) == 1 {
				post.vars[rn[0]] = rv
			}
		}
		for _, cl := range spec.Ensures {
			tr.assume(implies(guard, tr.evalClause(post, cl)))
		}
		tr.note("dynamic call of field/function value resolved against the contract of " + g.Name() + " (guarded by value equality)")
	}
}

func stripIface(v ssa.Value) ssa.Value {
	if mi, ok := v.(*ssa.MakeInterface); ok {
		return mi.X
	}
	return v
}

// callbackPointeeComps: memory components of the variable whose address is passed to a callback (only address-taken
// local variables of basic type: &name)
func (tr *FnCtx) callbackPointeeComps(a ssa.Value) []Comp {
	x := stripIface(a)
	al, ok := x.(*ssa.Alloc)
	if !ok {
		return nil
	}
	et := al.Type().(*types.Pointer).Elem()
	if _, basic := et.Underlying().(*types.Basic); !basic {
		return nil
	}
	return tr.W.cellComps(et)
}

func modeWord(m string) string {
	switch m {
	case "go":
		return "go"
	case "defer":
		return "defer"
	}
	return "call"
}

// runAts executes ghost updates / asserts anchored at a program point.
func (tr *FnCtx) runAts(st *State, anchor string, extra map[string]*Val) {
	if tr.Spec == nil {
		return
	}
	for _, at := range tr.Spec.Ats {
		if at.Anchor != anchor {
			continue
		}
		tr.atsUsed[at] = true
		vars := tr.nameEnv(tr.curBlk, len(tr.curBlk.Instrs))
		for k, v := range extra { // callee parameter names (and results for 'after' anchors), unless shadowed by a local
			if _, ok := vars[k]; !ok {
				vars[k] = v
			}
		}
		env := tr.newEnv(st, tr.entry, vars)
		switch at.Kind {
		case "assert":
			func() {
				defer func() {
					if r := recover(); r != nil {
						tr.specErrors = append(tr.specErrors, fmt.Sprintf("at %s: %v", anchor, r))
						tr.oblige(fmt.Sprintf("%s/assert[%s]", tr.Short, at.Label), "assert", "false", at.Src+" (cannot be evaluated on this tree: "+fmt.Sprint(r)+")")
					}
				}()
				tr.oblige(fmt.Sprintf("%s/assert[%s]", tr.Short, at.Label), "assert", env.evalBool(at.E), at.Src)
			}()
		case "assume":
			func() {
				defer func() {
					if r := recover(); r != nil {
						tr.specErrors = append(tr.specErrors, fmt.Sprintf("at %s: %v", anchor, r))
					}
				}()
				tr.assume(env.evalBool(at.E))
				tr.assumesUsed = append(tr.assumesUsed, tr.Short+": assume "+at.Src)
			}()
		case "ghost":
			func() {
				defer func() {
					if r := recover(); r != nil {
						tr.specErrors = append(tr.specErrors, fmt.Sprintf("at %s: %v", anchor, r))
					}
				}()
				rhs := env.eval(at.E)
				switch l := at.Target.(type) {
				case EIdent:
					cs := tr.resolveComps(l.Name, tr.Pkg)
					if len(cs) == 1 {
						tr.set(st, cs[0], rhs.one())
					}
				case EIdx:
					id, ok := l.X.(EIdent)
					if !ok {
						panic("ghost update target must be $g or $g[e]")
					}
					cs := tr.resolveComps(id.Name, tr.Pkg)
					if len(cs) == 1 {
						idx := env.eval(l.I)
						tr.set(st, cs[0], store(tr.cur(st, cs[0]), idx.A[0], rhs.one()))
					}
				}
			}()
		case "apply":
			tr.applyLemma(st, at, env, false)
		case "use":
			tr.applyLemma(st, at, env, true)
		}
	}
}

func (tr *FnCtx) applyLemma(st *State, at *AtSpec, env *Env, asImplication bool) {
	defer func() {
		if r := recover(); r != nil {
			tr.specErrors = append(tr.specErrors, fmt.Sprintf("apply at %s: %v", at.Anchor, r))
		}
	}()
	call, ok := at.E.(ECall)
	if !ok {
		panic("apply needs lemma(args)")
	}
	lm := tr.W.C.Lemmas[call.Fn]
	if lm == nil {
		panic("unknown lemma " + call.Fn)
	}
	vars := map[string]*Val{}
	for i, p := range lm.Params {
		v := env.eval(call.Args[i])
		if t, err := tr.W.parseType(tr.W.Pkgs[lm.Pkg].Types, p.Type); err == nil && (v.T == nil || v.T == tInt || v.T == types.Typ[types.UntypedNil]) {
			v = &Val{T: t, A: v.A}
		}
		vars[p.Name] = v
	}
	le := &Env{tr: tr, vars: vars, st: st, old: tr.entry, pkg: tr.W.Pkgs[lm.Pkg].Types, allocOld: tr.allocEntry}
	if asImplication {
		// 'use': only for trusted lemmas (axioms): assume (pre ==> post) without proving pre here
		if !lm.Trusted {
			panic("'use' is only allowed for trusted lemmas; apply " + lm.Name + " instead")
		}
		var pres, posts []string
		for _, cl := range lm.Pre {
			pres = append(pres, tr.evalClause(le, cl))
		}
		for _, cl := range lm.Post {
			posts = append(posts, tr.evalClause(le, cl))
		}
		tr.assume(implies(and(pres...), and(posts...)))
		tr.lemmasUsed[lm.Name] = true
		return
	}
	tr.ghostCounts["apply:"+lm.Name]++
	for _, cl := range lm.Pre {
		tr.oblige(fmt.Sprintf("%s/apply[%s.%s]#%d", tr.Short, lm.Name, cl.Label, tr.ghostCounts["apply:"+lm.Name]), "lemma-pre", tr.evalClause(le, cl), cl.Src)
	}
	for _, cl := range lm.Post {
		tr.assume(tr.evalClause(le, cl))
	}
	tr.lemmasUsed[lm.Name] = true
}

// ---------------------------------------------------------------- builtins

func (tr *FnCtx) builtin(st *State, b *ssa.Builtin, c *ssa.CallCommon, instr ssa.Instruction, resT types.Type) *Val {
	switch b.Name() {
	case "len":
		v := tr.val(c.Args[0])
		switch c.Args[0].Type().Underlying().(type) {
		case *types.Slice:
			return &Val{T: resT, A: []string{v.A[2]}}
		case *types.Map:
			tr.lockMap(st, c.Args[0].Type(), false, instr.(ssa.CallInstruction))
			d := tr.define(tr.fresh("dom"), "(Array Int Bool)", tr.mapDom(st, c.Args[0].Type(), v.one()))
			tr.assume("(>= (card " + d + ") 0)")
			return &Val{T: resT, A: []string{"(card " + d + ")"}}
		case *types.Basic:
			tr.assume("(>= (str_len " + v.one() + ") 0)")
			tr.assume(eq("(str_len 0)", "0"))
			return &Val{T: resT, A: []string{"(str_len " + v.one() + ")"}}
		}
	case "cap":
		v := tr.val(c.Args[0])
		if len(v.A) == 4 {
			return &Val{T: resT, A: []string{v.A[3]}}
		}
	case "delete":
		m := tr.val(c.Args[0]).one()
		k := tr.keyAtom(tr.val(c.Args[1]))
		tr.lockMap(st, c.Args[0].Type(), true, instr.(ssa.CallInstruction))
		tr.mapDelete(st, c.Args[0].Type(), m, k)
		return &Val{T: resT}
	case "append":
		return tr.appendOp(st, c, resT)
	case "copy":
		return tr.copyOp(st, c, resT)
	case "print", "println", "close":
		return &Val{T: resT}
	}
	tr.note("builtin " + b.Name() + ": result unconstrained")
	if tup, ok := resT.(*types.Tuple); ok && tup.Len() == 0 {
		return &Val{T: resT}
	}
	return tr.freshVal(resT, "builtin")
}

// constSliceElems recognises the varargs pattern: slice of a freshly allocated [k]T array; returns the element values.
func (tr *FnCtx) constSliceElems(v ssa.Value) ([]ssa.Value, bool) {
	sl, ok := v.(*ssa.Slice)
	if !ok || sl.Low != nil || sl.High != nil {
		return nil, false
	}
	al, ok := sl.X.(*ssa.Alloc)
	if !ok {
		return nil, false
	}
	arr, ok := al.Type().(*types.Pointer).Elem().Underlying().(*types.Array)
	if !ok {
		return nil, false
	}
	elems := make([]ssa.Value, arr.Len())
	for _, ref := range *al.Referrers() {
		ia, ok := ref.(*ssa.IndexAddr)
		if !ok {
			continue
		}
		ci, ok := ia.Index.(*ssa.Const)
		if !ok {
			return nil, false
		}
		idx := int(ci.Int64())
		for _, r2 := range *ia.Referrers() {
			if s, ok := r2.(*ssa.Store); ok && s.Addr == ia {
				elems[idx] = s.Val
			}
		}
	}
	for _, e := range elems {
		if e == nil {
			return nil, false
		}
	}
	return elems, true
}

func (tr *FnCtx) appendOp(st *State, c *ssa.CallCommon, resT types.Type) *Val {
	s := tr.val(c.Args[0])
	et := c.Args[0].Type().Underlying().(*types.Slice).Elem()
	if cst, ok := c.Args[1].(*ssa.Const); ok && cst.Value == nil {
		return &Val{T: resT, A: s.A}
	}
	elems, ok := tr.constSliceElems(c.Args[1])
	if !ok && len(s.A) == 4 {
		if t := tr.val(c.Args[1]); len(t.A) == 4 {
			return tr.appendSlice(st, s, t, et, resT)
		}
	}
	if !ok || len(s.A) != 4 {
		tr.note("append of a non-slice value: result and element memory unconstrained")
		for _, cc := range tr.W.cellComps(et) {
			tr.havocComp(st, cc)
		}
		return tr.freshVal(resT, "append")
	}
	n := intLit(int64(len(elems)))
	base, off, ln, cp := s.A[0], s.A[1], s.A[2], s.A[3]
	inplace := tr.define(tr.fresh("inplace"), "Bool", "(<= (+ "+ln+" "+n+") "+cp+")")
	nb := tr.newObj(st)
	ncap := tr.freshConst("newcap", "Int")
	tr.assume("(>= " + ncap + " (+ " + ln + " " + n + "))")
	// result header as constants constrained per case (no ite terms inside element addresses)
	rbase := tr.freshConst("abase", "Int")
	roff := tr.freshConst("aoff", "Int")
	rcap := tr.freshConst("acap", "Int")
	tr.assume(implies(inplace, and(eq(rbase, base), eq(roff, off), eq(rcap, cp))))
	tr.assume(implies(not(inplace), and(eq(rbase, nb), eq(roff, "0"), eq(rcap, ncap))))
	var evals []*Val
	for _, e := range elems {
		v := tr.val(e)
		evals = append(evals, v)
		tr.publish(st, v)
	}
	cs := tr.W.cellComps(et)
	for ci, cc := range cs {
		old := tr.cur(st, cc)
		// one pointwise definition of the new memory covering both outcomes (in place / reallocated)
		nw := tr.freshConst(cc.Name+"@ap", cc.Sort)
		body := "(ite (and (not " + inplace + ") (< a 0) (= (elemB a) " + nb + ") (<= 0 (elemI a)) (< (elemI a) " + ln + ")) (select " + old + " (at " + base + " " + off + " (elemI a))) (select " + old + " a))"
		for j := len(evals) - 1; j >= 0; j-- {
			if ci < len(evals[j].A) {
				body = "(ite (= a " + tr.at(rbase, roff, add(ln, intLit(int64(j)))) + ") " + evals[j].A[ci] + " " + body + ")"
			}
		}
		tr.assumeRaw(fmt.Sprintf("(forall ((a Int)) (! (= (select %s a) %s) :pattern ((select %s a))))", nw, body, nw))
		st.Comps[cc.Name] = nw
		tr.refAxiomLater(st, cc, nw)
	}
	return &Val{T: resT, A: []string{rbase, roff, "(+ " + ln + " " + n + ")", rcap}}
}

func (tr *FnCtx) copyOp(st *State, c *ssa.CallCommon, resT types.Type) *Val {
	d := tr.val(c.Args[0])
	s := tr.val(c.Args[1])
	sl, ok := c.Args[0].Type().Underlying().(*types.Slice)
	if !ok || len(d.A) != 4 || len(s.A) != 4 {
		tr.note("copy from string: unconstrained")
		return tr.freshVal(resT, "copy")
	}
	n := tr.define(tr.fresh("ncopy"), "Int", ite("(< "+d.A[2]+" "+s.A[2]+")", d.A[2], s.A[2]))
	for _, cc := range tr.W.cellComps(sl.Elem()) {
		old := tr.cur(st, cc)
		nw := tr.havocComp(st, cc)
		tr.assumeRaw(fmt.Sprintf("(forall ((a Int)) (! (= (select %s a) (ite (and (< a 0) (= (elemB a) %s) (<= %s (elemI a)) (< (elemI a) (+ %s %s))) (select %s (at %s %s (- (elemI a) %s))) (select %s a))) :pattern ((select %s a))))",
			nw, d.A[0], d.A[1], d.A[1], n, old, s.A[0], s.A[1], d.A[1], old, nw))
	}
	return &Val{T: resT, A: []string{n}}
}

// appendSlice: append(s, t...) for an arbitrary slice t (bulk copy, quantified).
func (tr *FnCtx) appendSlice(st *State, s, t *Val, et types.Type, resT types.Type) *Val {
	base, off, ln, cp := s.A[0], s.A[1], s.A[2], s.A[3]
	tb, toff, n := t.A[0], t.A[1], t.A[2]
	inplace := tr.define(tr.fresh("inplace"), "Bool", "(<= (+ "+ln+" "+n+") "+cp+")")
	nb := tr.newObj(st)
	ncap := tr.freshConst("newcap", "Int")
	tr.assume("(>= " + ncap + " (+ " + ln + " " + n + "))")
	for _, cc := range tr.W.cellComps(et) {
		old := tr.cur(st, cc)
		m1 := tr.freshConst(cc.Name+"@ai", cc.Sort)
		tr.assumeRaw(fmt.Sprintf("(forall ((a Int)) (! (= (select %s a) (ite (and (< a 0) (= (elemB a) %s) (<= (+ %s %s) (elemI a)) (< (elemI a) (+ %s %s %s))) (select %s (at %s %s (- (elemI a) (+ %s %s)))) (select %s a))) :pattern ((select %s a))))",
			m1, base, off, ln, off, ln, n, old, tb, toff, off, ln, old, m1))
		m2 := tr.freshConst(cc.Name+"@ar", cc.Sort)
		tr.assumeRaw(fmt.Sprintf("(forall ((a Int)) (! (= (select %s a) (ite (and (< a 0) (= (elemB a) %s) (<= 0 (elemI a)) (< (elemI a) %s)) (select %s (at %s %s (elemI a))) (ite (and (< a 0) (= (elemB a) %s) (<= %s (elemI a)) (< (elemI a) (+ %s %s))) (select %s (at %s %s (- (elemI a) %s))) (select %s a)))) :pattern ((select %s a))))",
			m2, nb, ln, old, base, off, nb, ln, ln, n, old, tb, toff, ln, old, m2))
		tr.set(st, cc, ite(inplace, m1, m2))
	}
	rbase := tr.freshConst("abase", "Int")
	roff := tr.freshConst("aoff", "Int")
	rcap := tr.freshConst("acap", "Int")
	tr.assume(implies(inplace, and(eq(rbase, base), eq(roff, off), eq(rcap, cp))))
	tr.assume(implies(not(inplace), and(eq(rbase, nb), eq(roff, "0"), eq(rcap, ncap))))
	return &Val{T: resT, A: []string{rbase, roff, "(+ " + ln + " " + n + ")", rcap}}
}

func (tr *FnCtx) sortSortModsCommon(c *ssa.CallCommon) ([]Comp, bool) {
	mi, ok := c.Args[0].(*ssa.MakeInterface)
	if !ok {
		return nil, true
	}
	ms := tr.W.Prog.MethodSets.MethodSet(mi.X.Type())
	for i := 0; i < ms.Len(); i++ {
		if ms.At(i).Obj().Name() == "Swap" {
			fn := tr.W.Prog.MethodValue(ms.At(i))
			if fn == nil || fnPkg(fn) == nil {
				return nil, true
			}
			spec := tr.W.C.Funcs[pkgKey(fnPkg(fn).Pkg.Path(), fnRelName(fn))]
			if spec == nil {
				return nil, true
			}
			return tr.specMods(spec, fnPkg(fn).Pkg)
		}
	}
	return nil, true
}

// havocAllKeepHeld: a function of another module may change any modelled memory but cannot reach the
// runner's mutex, so the ghost lock state of the calling goroutine is unchanged (stated assumption).
func (tr *FnCtx) havocAllKeepHeld(st *State, callee *types.Package) {
	if callee != nil && tr.W.isLocalPkg(callee) {
		tr.havocAll(st)
		return
	}
	held := tr.cur(st, compHeld)
	tr.havocAll(st)
	st.Comps[compHeld.Name] = held
	tr.externUsed["functions of other modules do not change the lock state of the calling goroutine"] = true
}
