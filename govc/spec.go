package main

// Contract language: lexer, expression parser and contract-file parser.
//
// Contracts live in comment-only Go files (*_contracts_verif.go, build tag
// "verif") inside the verified repository. Every line that starts with "//@"
// belongs to the contract language; everything else is ignored.

import (
	"fmt"
	"os"
	"path/filepath"
	"sort"
	"strings"
	"unicode"
)

// ---------------------------------------------------------------- expressions

type Expr interface{}

type (
	EIdent struct{ Name string }
	EInt   struct{ V string }
	EStr   struct{ V string }
	EBool  struct{ V bool }
	ENil   struct{}
	EUn    struct {
		Op string
		X  Expr
	}
	EBin struct {
		Op   string
		X, Y Expr
	}
	ESel struct {
		X Expr
		F string
	}
	EIdx struct {
		X, I Expr
	}
	ESlice struct {
		X, Lo, Hi Expr
	}
	ECall struct {
		Fn   string
		Args []Expr
	}
	QVar struct {
		Name string
		Type string // Go type expression, "" = int
	}
	EQuant struct {
		Forall bool
		Vars   []QVar
		Body   Expr
	}
	EOld struct{ X Expr }
)

type tokT struct {
	kind string // ident int str op eof
	text string
	pos  int
}

type lexer struct {
	src  string
	toks []tokT
	p    int
}

var ops3 = []string{"<==>", "==>", "::", "==", "!=", "<=", ">=", "&&", "||", ":="}

func lex(src string) ([]tokT, error) {
	var toks []tokT
	i := 0
	for i < len(src) {
		c := src[i]
		if c == ' ' || c == '\t' || c == '\n' {
			i++
			continue
		}
		if unicode.IsLetter(rune(c)) || c == '_' || c == '$' {
			j := i + 1
			for j < len(src) && (unicode.IsLetter(rune(src[j])) || unicode.IsDigit(rune(src[j])) || src[j] == '_' || src[j] == '$') {
				j++
			}
			toks = append(toks, tokT{"ident", src[i:j], i})
			i = j
			continue
		}
		if unicode.IsDigit(rune(c)) {
			j := i + 1
			for j < len(src) && unicode.IsDigit(rune(src[j])) {
				j++
			}
			toks = append(toks, tokT{"int", src[i:j], i})
			i = j
			continue
		}
		if c == '"' {
			j := i + 1
			for j < len(src) && src[j] != '"' {
				if src[j] == '\\' {
					j++
				}
				j++
			}
			if j >= len(src) {
				return nil, fmt.Errorf("unterminated string at %d", i)
			}
			toks = append(toks, tokT{"str", src[i+1 : j], i})
			i = j + 1
			continue
		}
		matched := false
		for _, op := range ops3 {
			if strings.HasPrefix(src[i:], op) {
				toks = append(toks, tokT{"op", op, i})
				i += len(op)
				matched = true
				break
			}
		}
		if matched {
			continue
		}
		if strings.ContainsRune("()[]{}.,:!<>+-*/%&|=", rune(c)) {
			toks = append(toks, tokT{"op", string(c), i})
			i++
			continue
		}
		return nil, fmt.Errorf("unexpected character %q at %d in %q", c, i, src)
	}
	toks = append(toks, tokT{"eof", "", len(src)})
	return toks, nil
}

type parser struct {
	toks []tokT
	p    int
	src  string
}

func (p *parser) peek() tokT { return p.toks[p.p] }
func (p *parser) next() tokT { t := p.toks[p.p]; p.p++; return t }
func (p *parser) isOp(s string) bool {
	t := p.peek()
	return t.kind == "op" && t.text == s
}
func (p *parser) accept(s string) bool {
	if p.isOp(s) {
		p.p++
		return true
	}
	return false
}
func (p *parser) expect(s string) error {
	if !p.accept(s) {
		return fmt.Errorf("expected %q at %d, got %q in %q", s, p.peek().pos, p.peek().text, p.src)
	}
	return nil
}

func ParseExpr(src string) (Expr, error) {
	toks, err := lex(src)
	if err != nil {
		return nil, err
	}
	p := &parser{toks: toks, src: src}
	e, err := p.parseExpr()
	if err != nil {
		return nil, err
	}
	if p.peek().kind != "eof" {
		return nil, fmt.Errorf("trailing input at %d (%q) in %q", p.peek().pos, p.peek().text, src)
	}
	return e, nil
}

// precedence (low to high): <==>, ==> (right assoc), ||, &&, comparison, + -, * / %, unary, postfix
func (p *parser) parseExpr() (Expr, error) { return p.parseIff() }

func (p *parser) parseIff() (Expr, error) {
	x, err := p.parseImp()
	if err != nil {
		return nil, err
	}
	for p.accept("<==>") {
		y, err := p.parseImp()
		if err != nil {
			return nil, err
		}
		x = EBin{"<==>", x, y}
	}
	return x, nil
}

func (p *parser) parseImp() (Expr, error) {
	x, err := p.parseOr()
	if err != nil {
		return nil, err
	}
	if p.accept("==>") {
		y, err := p.parseImp()
		if err != nil {
			return nil, err
		}
		return EBin{"==>", x, y}, nil
	}
	return x, nil
}

func (p *parser) parseOr() (Expr, error) {
	x, err := p.parseAnd()
	if err != nil {
		return nil, err
	}
	for p.accept("||") {
		y, err := p.parseAnd()
		if err != nil {
			return nil, err
		}
		x = EBin{"||", x, y}
	}
	return x, nil
}

func (p *parser) parseAnd() (Expr, error) {
	x, err := p.parseCmp()
	if err != nil {
		return nil, err
	}
	for p.accept("&&") {
		y, err := p.parseCmp()
		if err != nil {
			return nil, err
		}
		x = EBin{"&&", x, y}
	}
	return x, nil
}

func (p *parser) parseCmp() (Expr, error) {
	x, err := p.parseAdd()
	if err != nil {
		return nil, err
	}
	for {
		t := p.peek()
		if t.kind == "op" && (t.text == "==" || t.text == "!=" || t.text == "<" || t.text == "<=" || t.text == ">" || t.text == ">=") {
			p.next()
			y, err := p.parseAdd()
			if err != nil {
				return nil, err
			}
			x = EBin{t.text, x, y}
			continue
		}
		if t.kind == "ident" && t.text == "in" {
			p.next()
			y, err := p.parseAdd()
			if err != nil {
				return nil, err
			}
			x = EBin{"in", x, y}
			continue
		}
		return x, nil
	}
}

func (p *parser) parseAdd() (Expr, error) {
	x, err := p.parseMul()
	if err != nil {
		return nil, err
	}
	for {
		t := p.peek()
		if t.kind == "op" && (t.text == "+" || t.text == "-") {
			p.next()
			y, err := p.parseMul()
			if err != nil {
				return nil, err
			}
			x = EBin{t.text, x, y}
			continue
		}
		return x, nil
	}
}

func (p *parser) parseMul() (Expr, error) {
	x, err := p.parseUnary()
	if err != nil {
		return nil, err
	}
	for {
		t := p.peek()
		if t.kind == "op" && (t.text == "*" || t.text == "/" || t.text == "%") {
			p.next()
			y, err := p.parseUnary()
			if err != nil {
				return nil, err
			}
			x = EBin{t.text, x, y}
			continue
		}
		return x, nil
	}
}

func (p *parser) parseUnary() (Expr, error) {
	t := p.peek()
	if t.kind == "op" && (t.text == "!" || t.text == "-" || t.text == "*") {
		p.next()
		x, err := p.parseUnary()
		if err != nil {
			return nil, err
		}
		return EUn{t.text, x}, nil
	}
	return p.parsePostfix()
}

func (p *parser) parsePostfix() (Expr, error) {
	x, err := p.parsePrimary()
	if err != nil {
		return nil, err
	}
	for {
		if p.accept(".") {
			t := p.next()
			if t.kind != "ident" {
				return nil, fmt.Errorf("expected field name at %d in %q", t.pos, p.src)
			}
			x = ESel{x, t.text}
			continue
		}
		if p.accept("[") {
			var lo, hi Expr
			if !p.isOp(":") {
				lo, err = p.parseExpr()
				if err != nil {
					return nil, err
				}
			}
			if p.accept(":") {
				if !p.isOp("]") {
					hi, err = p.parseExpr()
					if err != nil {
						return nil, err
					}
				}
				if err := p.expect("]"); err != nil {
					return nil, err
				}
				x = ESlice{x, lo, hi}
				continue
			}
			if err := p.expect("]"); err != nil {
				return nil, err
			}
			x = EIdx{x, lo}
			continue
		}
		return x, nil
	}
}

func (p *parser) parsePrimary() (Expr, error) {
	t := p.next()
	switch t.kind {
	case "int":
		return EInt{t.text}, nil
	case "str":
		return EStr{t.text}, nil
	case "ident":
		switch t.text {
		case "true":
			return EBool{true}, nil
		case "false":
			return EBool{false}, nil
		case "nil":
			return ENil{}, nil
		case "forall", "exists":
			return p.parseQuant(t.text == "forall")
		case "old":
			if err := p.expect("("); err != nil {
				return nil, err
			}
			x, err := p.parseExpr()
			if err != nil {
				return nil, err
			}
			if err := p.expect(")"); err != nil {
				return nil, err
			}
			return EOld{x}, nil
		}
		if p.isOp("(") {
			p.next()
			var args []Expr
			for !p.isOp(")") {
				a, err := p.parseExpr()
				if err != nil {
					return nil, err
				}
				args = append(args, a)
				if !p.accept(",") {
					break
				}
			}
			if err := p.expect(")"); err != nil {
				return nil, err
			}
			return ECall{t.text, args}, nil
		}
		return EIdent{t.text}, nil
	case "op":
		if t.text == "(" {
			x, err := p.parseExpr()
			if err != nil {
				return nil, err
			}
			if err := p.expect(")"); err != nil {
				return nil, err
			}
			return x, nil
		}
	}
	return nil, fmt.Errorf("unexpected token %q at %d in %q", t.text, t.pos, p.src)
}

// forall i, j :: body      forall j *PipelineJob, k string :: body
func (p *parser) parseQuant(forall bool) (Expr, error) {
	var vars []QVar
	for {
		t := p.next()
		if t.kind != "ident" {
			return nil, fmt.Errorf("expected quantified variable at %d in %q", t.pos, p.src)
		}
		v := QVar{Name: t.text}
		// optional type: everything up to ',' or '::' at depth 0
		start := p.peek().pos
		depth := 0
		for {
			q := p.peek()
			if q.kind == "eof" {
				return nil, fmt.Errorf("unterminated quantifier in %q", p.src)
			}
			if depth == 0 && q.kind == "op" && (q.text == "," || q.text == "::") {
				break
			}
			if q.kind == "op" && (q.text == "[" || q.text == "(") {
				depth++
			}
			if q.kind == "op" && (q.text == "]" || q.text == ")") {
				depth--
			}
			p.next()
		}
		v.Type = strings.TrimSpace(p.src[start:p.peek().pos])
		vars = append(vars, v)
		if p.accept(",") {
			continue
		}
		if err := p.expect("::"); err != nil {
			return nil, err
		}
		break
	}
	body, err := p.parseExpr()
	if err != nil {
		return nil, err
	}
	return EQuant{forall, vars, body}, nil
}

// ---------------------------------------------------------------- contract files

type Clause struct {
	Kind  string // requires ensures invariant assert
	Label string
	Src   string
	E     Expr
	Line  string // file:line
	Props []string
}

type ModItem struct {
	Comp string // component pattern, e.g. PipelineJob.Canceled or $held or map[string][]*PipelineJob
	Objs []Expr // nil = whole component
	Src  string
}

type LoopSpec struct {
	Ordinal    int
	Invariants []*Clause
	Complete   bool   // "loop k complete": the loop is left only through its header (no break/return/goto out of the body)
	CompleteAt string // source position of the directive
}

type AtSpec struct { // ghost updates / asserts anchored at a call site
	Anchor string // "call <callee>#k" or "go#k" or "return#k"
	Kind   string // assert | assume-lemma | ghost
	Src    string
	E      Expr
	Label  string
	Target Expr // for ghost: lhs
}

type FuncSpec struct {
	Name      string // ssa RelString relative to its package, e.g. (*PipelineRunner).startJob
	Pkg       string
	Requires  []*Clause
	Steps     []*Clause // step invariants: proved after every call instruction of the function
	Assumes   []*Clause // assumed at entry, NOT checked at call sites: listed assumption (stable facts about entry points)
	Ensures   []*Clause
	Modifies  []ModItem
	ModAll    bool // no modifies clause given: everything may change
	HasMod    bool
	Loops     map[int]*LoopSpec
	Ats       []*AtSpec
	Trusted   bool // contract assumed, body not verified (extern-like)
	Safety    bool
	Line      string
	LockMode  string // "", "none", "R", "W", "any"
	Pure      bool
	AllowRead []string // fields that may be read without the lock in this function (listed as assumption)
}

type PureSpec struct {
	Name    string
	Params  []QVar
	RetType string
	Body    Expr
	Src     string
	Pkg     string
	Opaque  bool
}

type GhostSpec struct {
	Name  string // with leading $
	Array bool
	Sort  string // Int or Bool
}

type LemmaSpec struct {
	Name    string
	Params  []QVar
	Pre     []*Clause
	Post    []*Clause
	Trusted bool
	Pkg     string
}

type Contracts struct {
	Funcs   map[string]*FuncSpec // key: pkgpath + "::" + Name
	Pures   map[string]*PureSpec // key: pkgpath + "::" + name
	Ghosts  map[string]*GhostSpec
	Lemmas  map[string]*LemmaSpec
	Props   map[string][]string // property id -> obligation name patterns
	Files   []string
	Trusted []string // scan result: every trusted/assume/extern line
	// lock discipline declarations: each entry is (package path, text)
	LockDomain  []PkgText
	Immutable   []PkgText
	Unguarded   []PkgText
	GuardedMap  []PkgText
	GuardedMem  []PkgText
	Monitors    []MonitorSpec
	Relies      []MonitorSpec // two-state facts other goroutines guarantee while this goroutine does not hold the lock
	Writers     []WritersSpec
	GlobalInits []WritersSpec
	LockDefault map[string]string // package path -> lock mode of functions without an explicit lockmode
}

// WritersSpec: only the listed functions may contain a store to the field.
type WritersSpec struct {
	Pkg, Field string
	Funcs      []string
	Line       string
}

type PkgText struct{ Pkg, Text string }

type MonitorSpec struct {
	Pkg string
	Cl  *Clause
}

func pkgKey(pkg, name string) string { return pkg + "::" + name }

var clauseKeywords = map[string]bool{
	"func": true, "requires": true, "ensures": true, "assumes": true, "step": true, "globalinit": true, "modifies": true, "loop": true,
	"pure": true, "opaque": true, "property": true, "ghost": true, "lemma": true, "lockmode": true,
	"at": true, "trusted": true, "safety": true, "end": true, "lpre": true, "lpost": true,
	"lockdefault": true, "writers": true, "allowread": true, "monitor": true, "rely": true, "lockdomain": true, "immutable": true, "unguarded": true, "guardedmap": true, "guardedmem": true,
}

// LoadContracts reads every *_contracts_verif.go below root. modPath is the Go module path.
func LoadContracts(root, modPath string) (*Contracts, error) {
	c := &Contracts{Funcs: map[string]*FuncSpec{}, Pures: map[string]*PureSpec{}, Ghosts: map[string]*GhostSpec{},
		Lemmas: map[string]*LemmaSpec{}, Props: map[string][]string{}}
	var files []string
	filepath.Walk(root, func(p string, info os.FileInfo, err error) error {
		if err != nil {
			return nil
		}
		if info.IsDir() && (info.Name() == ".git" || info.Name() == "node_modules") {
			return filepath.SkipDir
		}
		if !info.IsDir() && strings.HasSuffix(p, "_contracts_verif.go") {
			files = append(files, p)
		}
		return nil
	})
	sort.Strings(files)
	for _, f := range files {
		rel, _ := filepath.Rel(root, filepath.Dir(f))
		pkg := modPath
		if rel != "." {
			pkg = modPath + "/" + filepath.ToSlash(rel)
		}
		if err := c.parseFile(f, pkg); err != nil {
			return nil, err
		}
		c.Files = append(c.Files, f)
	}
	return c, nil
}

type rawLine struct {
	text string
	line int
}

func (c *Contracts) parseFile(path, pkg string) error {
	data, err := os.ReadFile(path)
	if err != nil {
		return err
	}
	// gather logical lines: a line starting with a keyword starts a new clause, other lines continue it
	var logical []rawLine
	for i, l := range strings.Split(string(data), "\n") {
		t := strings.TrimSpace(l)
		if !strings.HasPrefix(t, "//@") {
			continue
		}
		t = strings.TrimSpace(strings.TrimPrefix(t, "//@"))
		if t == "" || strings.HasPrefix(t, "#") {
			continue
		}
		// strip trailing comment introduced by " ## "
		if k := strings.Index(t, " ## "); k >= 0 {
			t = strings.TrimSpace(t[:k])
		}
		first := t
		if k := strings.IndexAny(t, " \t"); k >= 0 {
			first = t[:k]
		}
		if clauseKeywords[first] || len(logical) == 0 {
			logical = append(logical, rawLine{t, i + 1})
		} else {
			logical[len(logical)-1].text += " " + t
		}
	}
	var cur *FuncSpec
	var curLemma *LemmaSpec
	for _, rl := range logical {
		where := fmt.Sprintf("%s:%d", path, rl.line)
		kw, rest := splitFirst(rl.text)
		switch kw {
		case "func":
			name := strings.TrimSpace(rest)
			cur = &FuncSpec{Name: name, Pkg: pkg, Loops: map[int]*LoopSpec{}, Line: where}
			curLemma = nil
			key := pkgKey(pkg, name)
			if strings.HasPrefix(name, "interface ") {
				// contract of an interface method: func interface (pkgpath.Iface).Method  — always assumed (there is no body)
				name = strings.TrimSpace(strings.TrimPrefix(name, "interface "))
				cur.Name = name
				key = "iface::" + name
				c.Trusted = append(c.Trusted, where+": assumed contract of interface method "+name)
			}
			if _, dup := c.Funcs[key]; dup {
				return fmt.Errorf("%s: duplicate contract for %s", where, name)
			}
			c.Funcs[key] = cur
		case "end":
			cur = nil
			curLemma = nil
		case "globalinit":
			// globalinit var: allowed1, allowed2  (the package-level variable is initialised from one of these globals)
			k := strings.Index(rest, ":")
			if k < 0 {
				return fmt.Errorf("%s: malformed globalinit line", where)
			}
			c.GlobalInits = append(c.GlobalInits, WritersSpec{Pkg: pkg, Field: strings.TrimSpace(rest[:k]), Funcs: splitTop(rest[k+1:]), Line: where})
		case "step":
			if cur == nil {
				return fmt.Errorf("%s: step outside func", where)
			}
			cl, err := parseClause("step", rest, where)
			if err != nil {
				return err
			}
			cur.Steps = append(cur.Steps, cl)
		case "requires", "ensures", "assumes":
			if cur == nil {
				return fmt.Errorf("%s: %s outside func", where, kw)
			}
			cl, err := parseClause(kw, rest, where)
			if err != nil {
				return err
			}
			switch kw {
			case "requires":
				cur.Requires = append(cur.Requires, cl)
			case "assumes":
				cur.Assumes = append(cur.Assumes, cl)
				c.Trusted = append(c.Trusted, where+": assumed at entry of "+cur.Name+" ["+cl.Label+"]: "+cl.Src)
			default:
				cur.Ensures = append(cur.Ensures, cl)
			}
		case "lpre", "lpost":
			if curLemma == nil {
				return fmt.Errorf("%s: %s outside lemma", where, kw)
			}
			cl, err := parseClause(kw, rest, where)
			if err != nil {
				return err
			}
			if kw == "lpre" {
				curLemma.Pre = append(curLemma.Pre, cl)
			} else {
				curLemma.Post = append(curLemma.Post, cl)
			}
		case "modifies":
			if cur == nil {
				return fmt.Errorf("%s: modifies outside func", where)
			}
			cur.HasMod = true
			items, err := parseModifies(rest, where)
			if err != nil {
				return err
			}
			cur.Modifies = append(cur.Modifies, items...)
		case "trusted":
			if cur != nil {
				cur.Trusted = true
				c.Trusted = append(c.Trusted, where+": trusted contract for "+cur.Name+" "+rest)
			} else if curLemma != nil {
				curLemma.Trusted = true
				c.Trusted = append(c.Trusted, where+": trusted lemma "+curLemma.Name+" "+rest)
			}
		case "safety":
			if cur != nil {
				cur.Safety = true
			}
		case "allowread":
			if cur == nil {
				return fmt.Errorf("%s: allowread outside func", where)
			}
			// allowread Type.field <justification>
			f, just := splitFirst(rest)
			cur.AllowRead = append(cur.AllowRead, f)
			c.Trusted = append(c.Trusted, where+": unguarded read of "+f+" in "+cur.Name+": "+just)
		case "lockmode":
			if cur == nil {
				return fmt.Errorf("%s: lockmode outside func", where)
			}
			cur.LockMode = strings.TrimSpace(rest)
		case "loop":
			if cur == nil {
				return fmt.Errorf("%s: loop outside func", where)
			}
			// loop <k> invariant [label] expr
			var k int
			var kw2 string
			parts := strings.Fields(rest)
			if len(parts) < 2 || (len(parts) < 3 && parts[1] != "complete") {
				return fmt.Errorf("%s: malformed loop clause", where)
			}
			fmt.Sscanf(parts[0], "%d", &k)
			kw2 = parts[1]
			if kw2 == "complete" {
				ls := cur.Loops[k]
				if ls == nil {
					ls = &LoopSpec{Ordinal: k}
					cur.Loops[k] = ls
				}
				ls.Complete = true
				ls.CompleteAt = where
				break
			}
			if kw2 != "invariant" {
				return fmt.Errorf("%s: expected 'invariant' after loop ordinal", where)
			}
			idx := strings.Index(rest, "invariant")
			cl, err := parseClause("invariant", rest[idx+len("invariant"):], where)
			if err != nil {
				return err
			}
			ls := cur.Loops[k]
			if ls == nil {
				ls = &LoopSpec{Ordinal: k}
				cur.Loops[k] = ls
			}
			ls.Invariants = append(ls.Invariants, cl)
		case "at":
			if cur == nil {
				return fmt.Errorf("%s: at outside func", where)
			}
			// at <anchor>: assert [label] expr | at <anchor>: ghost $x[e] := e | at <anchor>: apply lemma(args)
			k := strings.Index(rest, ":")
			if k < 0 {
				return fmt.Errorf("%s: malformed at clause", where)
			}
			anchor := strings.TrimSpace(rest[:k])
			body := strings.TrimSpace(rest[k+1:])
			kw3, r3 := splitFirst(body)
			as := &AtSpec{Anchor: anchor, Kind: kw3, Src: r3}
			switch kw3 {
			case "assert", "assume":
				cl, err := parseClause(kw3, r3, where)
				if err != nil {
					return err
				}
				as.E = cl.E
				as.Label = cl.Label
				if kw3 == "assume" {
					c.Trusted = append(c.Trusted, where+": assume in "+cur.Name+": "+r3)
				}
			case "ghost":
				j := strings.Index(r3, ":=")
				if j < 0 {
					return fmt.Errorf("%s: ghost update needs :=", where)
				}
				lhs, err := ParseExpr(strings.TrimSpace(r3[:j]))
				if err != nil {
					return fmt.Errorf("%s: %v", where, err)
				}
				rhs, err := ParseExpr(strings.TrimSpace(r3[j+2:]))
				if err != nil {
					return fmt.Errorf("%s: %v", where, err)
				}
				as.Target = lhs
				as.E = rhs
			case "apply", "use":
				e, err := ParseExpr(r3)
				if err != nil {
					return fmt.Errorf("%s: %v", where, err)
				}
				as.E = e
			default:
				return fmt.Errorf("%s: unknown at-kind %q", where, kw3)
			}
			cur.Ats = append(cur.Ats, as)
		case "pure":
			// pure name(a T, b T) T = expr
			ps, err := parsePure(rest, where)
			if err != nil {
				return err
			}
			ps.Pkg = pkg
			c.Pures[pkgKey(pkg, ps.Name)] = ps
		case "opaque":
			// opaque name(a T, b T) bool = expr: a pure predicate whose applications stay function symbols in the
			// queries (the definition is a triggered axiom); equal arguments over an unchanged heap are then equal by
			// congruence without unfolding quantifiers
			ps, err := parsePure(rest, where)
			if err != nil {
				return err
			}
			ps.Pkg = pkg
			ps.Opaque = true
			c.Pures[pkgKey(pkg, ps.Name)] = ps
		case "lemma":
			// lemma name(a T, b T)
			name, params, _, err := parseSig(rest, where)
			if err != nil {
				return err
			}
			curLemma = &LemmaSpec{Name: name, Params: params, Pkg: pkg}
			cur = nil
			c.Lemmas[name] = curLemma
		case "ghost":
			// ghost $name scalar Int | ghost $name array Bool
			parts := strings.Fields(rest)
			if len(parts) != 3 {
				return fmt.Errorf("%s: ghost $name scalar|array Int|Bool", where)
			}
			c.Ghosts[parts[0]] = &GhostSpec{Name: parts[0], Array: parts[1] == "array", Sort: parts[2]}
		case "lockdefault":
			if c.LockDefault == nil {
				c.LockDefault = map[string]string{}
			}
			c.LockDefault[pkg] = strings.TrimSpace(rest)
		case "writers":
			// writers Type.field: f1, f2
			k := strings.Index(rest, ":")
			if k < 0 {
				return fmt.Errorf("%s: malformed writers line", where)
			}
			c.Writers = append(c.Writers, WritersSpec{Pkg: pkg, Field: strings.TrimSpace(rest[:k]), Funcs: splitTop(rest[k+1:]), Line: where})
		case "rely":
			cl, err := parseClause("rely", rest, where)
			if err != nil {
				return err
			}
			c.Relies = append(c.Relies, MonitorSpec{pkg, cl})
		case "monitor":
			cl, err := parseClause("monitor", rest, where)
			if err != nil {
				return err
			}
			c.Monitors = append(c.Monitors, MonitorSpec{pkg, cl})
		case "lockdomain", "immutable", "unguarded", "guardedmap", "guardedmem":
			for _, it := range splitTop(rest) {
				pt := PkgText{pkg, it}
				switch kw {
				case "lockdomain":
					c.LockDomain = append(c.LockDomain, pt)
				case "immutable":
					c.Immutable = append(c.Immutable, pt)
				case "unguarded":
					c.Unguarded = append(c.Unguarded, pt)
					c.Trusted = append(c.Trusted, where+": unguarded "+it)
				case "guardedmap":
					c.GuardedMap = append(c.GuardedMap, pt)
				case "guardedmem":
					c.GuardedMem = append(c.GuardedMem, pt)
				}
			}
		case "property":
			// property C05: pattern pattern ...
			k := strings.Index(rest, ":")
			if k < 0 {
				return fmt.Errorf("%s: malformed property line", where)
			}
			id := strings.TrimSpace(rest[:k])
			c.Props[id] = append(c.Props[id], strings.Fields(rest[k+1:])...)
		default:
			return fmt.Errorf("%s: unknown contract keyword %q", where, kw)
		}
	}
	return nil
}

func splitFirst(s string) (string, string) {
	s = strings.TrimSpace(s)
	if k := strings.IndexAny(s, " \t"); k >= 0 {
		return s[:k], strings.TrimSpace(s[k+1:])
	}
	return s, ""
}

// "[label] expr"
func parseClause(kind, rest, where string) (*Clause, error) {
	rest = strings.TrimSpace(rest)
	label := ""
	if strings.HasPrefix(rest, "[") {
		k := strings.Index(rest, "]")
		if k < 0 {
			return nil, fmt.Errorf("%s: unterminated label", where)
		}
		label = strings.TrimSpace(rest[1:k])
		rest = strings.TrimSpace(rest[k+1:])
	}
	if label == "" {
		return nil, fmt.Errorf("%s: %s clause needs a [label]", where, kind)
	}
	e, err := ParseExpr(rest)
	if err != nil {
		return nil, fmt.Errorf("%s: %v", where, err)
	}
	return &Clause{Kind: kind, Label: label, Src: rest, E: e, Line: where}, nil
}

// modifies nothing | modifies A.f, B.g[x, y], $held
func parseModifies(rest, where string) ([]ModItem, error) {
	rest = strings.TrimSpace(rest)
	if rest == "nothing" || rest == "" {
		return nil, nil
	}
	var items []ModItem
	// split on commas at bracket depth 0
	depth := 0
	start := 0
	var parts []string
	for i, ch := range rest {
		switch ch {
		case '[', '(':
			depth++
		case ']', ')':
			depth--
		case ',':
			if depth == 0 {
				parts = append(parts, rest[start:i])
				start = i + 1
			}
		}
	}
	parts = append(parts, rest[start:])
	for _, p := range parts {
		p = strings.TrimSpace(p)
		if p == "" {
			continue
		}
		it := ModItem{Src: p}
		// an object list is a trailing "@[e1, e2]"
		if k := strings.Index(p, "@["); k >= 0 && strings.HasSuffix(p, "]") {
			it.Comp = strings.TrimSpace(p[:k])
			inner := p[k+2 : len(p)-1]
			// split inner on commas depth 0
			d := 0
			s := 0
			for i, ch := range inner {
				switch ch {
				case '[', '(':
					d++
				case ']', ')':
					d--
				case ',':
					if d == 0 {
						e, err := ParseExpr(inner[s:i])
						if err != nil {
							return nil, fmt.Errorf("%s: %v", where, err)
						}
						it.Objs = append(it.Objs, e)
						s = i + 1
					}
				}
			}
			e, err := ParseExpr(inner[s:])
			if err != nil {
				return nil, fmt.Errorf("%s: %v", where, err)
			}
			it.Objs = append(it.Objs, e)
		} else {
			it.Comp = p
		}
		items = append(items, it)
	}
	return items, nil
}

// name(a T, b T) T
func parseSig(s, where string) (string, []QVar, string, error) {
	k := strings.Index(s, "(")
	if k < 0 {
		return "", nil, "", fmt.Errorf("%s: expected ( in signature", where)
	}
	name := strings.TrimSpace(s[:k])
	depth := 0
	end := -1
	for i := k; i < len(s); i++ {
		if s[i] == '(' {
			depth++
		}
		if s[i] == ')' {
			depth--
			if depth == 0 {
				end = i
				break
			}
		}
	}
	if end < 0 {
		return "", nil, "", fmt.Errorf("%s: unbalanced signature", where)
	}
	var params []QVar
	inner := s[k+1 : end]
	if strings.TrimSpace(inner) != "" {
		d := 0
		st := 0
		var parts []string
		for i, ch := range inner {
			switch ch {
			case '[', '(':
				d++
			case ']', ')':
				d--
			case ',':
				if d == 0 {
					parts = append(parts, inner[st:i])
					st = i + 1
				}
			}
		}
		parts = append(parts, inner[st:])
		for _, p := range parts {
			n, t := splitFirst(p)
			params = append(params, QVar{Name: n, Type: t})
		}
	}
	return name, params, strings.TrimSpace(s[end+1:]), nil
}

func parsePure(rest, where string) (*PureSpec, error) {
	k := strings.Index(rest, " = ")
	if k < 0 {
		return nil, fmt.Errorf("%s: pure needs ' = '", where)
	}
	name, params, ret, err := parseSig(rest[:k], where)
	if err != nil {
		return nil, err
	}
	body, err := ParseExpr(rest[k+3:])
	if err != nil {
		return nil, fmt.Errorf("%s: %v", where, err)
	}
	return &PureSpec{Name: name, Params: params, RetType: ret, Body: body, Src: rest}, nil
}

// splitTop splits on commas at bracket depth 0.
func splitTop(s string) []string {
	var out []string
	d := 0
	st := 0
	for i, ch := range s {
		switch ch {
		case '[', '(':
			d++
		case ']', ')':
			d--
		case ',':
			if d == 0 {
				if t := strings.TrimSpace(s[st:i]); t != "" {
					out = append(out, t)
				}
				st = i + 1
			}
		}
	}
	if t := strings.TrimSpace(s[st:]); t != "" {
		out = append(out, t)
	}
	return out
}
