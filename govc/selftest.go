package main

// Thorough tier: must-fail corpus. Every seeded change under /verif/seeded whose meta.json lists this
// property is applied to a scratch copy of the repository (outside /repo and /verif, removed afterwards),
// and the same check is run there; it must report a violation. The outcome is recorded in evidence; a
// seeded change that is not caught is reported as a weakness of the check, not as a violation of the
// property on the unchanged tree.

import (
	"bytes"
	"encoding/json"
	"os"
	"os/exec"
	"path/filepath"
	"sort"
	"strings"
	"time"
)

type selftestResult struct {
	Seed    string   `json:"seeded_change"`
	Caught  bool     `json:"caught"`
	Failing []string `json:"failing_obligations"`
	WallS   float64  `json:"wall_s"`
	Note    string   `json:"note,omitempty"`
}

func (rc *runCtx) selftest(prop string) []selftestResult {
	var out []selftestResult
	if os.Getenv("VERIF_SELFTEST_CHILD") != "" {
		return out
	}
	dirs, _ := filepath.Glob(filepath.Join(rc.verif, "seeded", "*", "meta.json"))
	sort.Strings(dirs)
	for _, mf := range dirs {
		b, err := os.ReadFile(mf)
		if err != nil {
			continue
		}
		var meta struct {
			Breaks []string `json:"breaks"`
		}
		if json.Unmarshal(b, &meta) != nil {
			continue
		}
		listed := false
		for _, p := range meta.Breaks {
			if p == prop {
				listed = true
			}
		}
		if !listed {
			continue
		}
		dir := filepath.Dir(mf)
		res := selftestResult{Seed: filepath.Base(dir)}
		t0 := time.Now()
		scr, err := os.MkdirTemp("", "govc-selftest-")
		if err != nil {
			continue
		}
		cp := exec.Command("rsync", "-a", "--exclude", ".git", rc.w.Repo+"/", scr+"/")
		if err := cp.Run(); err != nil {
			res.Note = "copy failed: " + err.Error()
			out = append(out, res)
			os.RemoveAll(scr)
			continue
		}
		patch := exec.Command("patch", "-p1", "-s", "-i", filepath.Join(dir, "patch.diff"))
		patch.Dir = scr
		if pout, err := patch.CombinedOutput(); err != nil {
			res.Note = "patch does not apply to the current tree: " + strings.TrimSpace(string(pout))
			out = append(out, res)
			os.RemoveAll(scr)
			continue
		}
		self, _ := os.Executable()
		cmd := exec.Command(self, "check", "--property", prop, "--tier", "quick", "--repo", scr, "--verif", rc.verif, "--timeout", "30")
		cmd.Env = append(os.Environ(), "VERIF_NOEVIDENCE=1", "VERIF_SELFTEST_CHILD=1", "VERIF_TIER=quick")
		var buf bytes.Buffer
		cmd.Stdout = &buf
		cmd.Stderr = &buf
		err = cmd.Run()
		seen := map[string]bool{}
		for _, l := range strings.Split(buf.String(), "\n") {
			if strings.HasPrefix(l, "FAIL ") {
				f := strings.Fields(l)
				if len(f) > 1 && !seen[f[1]] {
					seen[f[1]] = true
					res.Failing = append(res.Failing, f[1])
				}
			}
		}
		res.Caught = err != nil && strings.Contains(buf.String(), "VIOLATION property="+prop)
		if res.Failing == nil {
			res.Failing = []string{}
		}
		res.WallS = time.Since(t0).Seconds()
		os.RemoveAll(scr)
		out = append(out, res)
	}
	return out
}
