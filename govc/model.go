package main

// Memory model: how Go values and the heap are represented in SMT.
//
//  - every Go value is a tuple of atoms; an atom has sort Int or Bool
//  - pointers, maps, channels, funcs, interfaces, strings, time.Time, uuid.UUID are one Int atom
//    (strings/uuids/times are opaque identifiers; 0 is the zero value; nil is 0)
//  - a slice is four atoms: backing id, offset, len, cap; element i lives at address
//    elem(backing, offset+i) (elem is injective, results are negative, never equal to an
//    allocated object address)
//  - struct values of the verified module are flattened field by field; struct values of
//    other modules (sync.Mutex, time.Time, ...) are opaque single atoms
//  - heap: one SMT array per (struct type, flattened field) indexed by object address
//    (Burstall/Bornat); one array per pointee type for cells of non-struct type; maps have a
//    domain component and one value component per atom of the value type

import (
	"fmt"
	"go/types"
	"sort"
	"strings"
)

type Atom struct {
	Path string
	Sort string // Int | Bool
	Ref  bool   // the atom is a reference (pointer, map, chan, slice backing): allocated objects only
}

func (w *World) isOpaqueNamed(t types.Type) bool {
	n, ok := t.(*types.Named)
	if !ok {
		return false
	}
	switch n.Underlying().(type) {
	case *types.Struct, *types.Array:
		return !w.isLocalPkg(n.Obj().Pkg())
	}
	return false
}

func joinPath(prefix, p string) string {
	if p == "" {
		return prefix
	}
	if prefix == "" {
		return p
	}
	if strings.HasPrefix(p, "#") {
		return prefix + p
	}
	return prefix + "." + p
}

// flatten returns the atoms of a value of type t.
func (w *World) flatten(t types.Type) []Atom {
	if w.isOpaqueNamed(t) {
		return []Atom{{"", "Int", false}}
	}
	switch u := t.Underlying().(type) {
	case *types.Basic:
		if u.Info()&types.IsBoolean != 0 {
			return []Atom{{"", "Bool", false}}
		}
		return []Atom{{"", "Int", false}}
	case *types.Slice:
		return []Atom{{"#base", "Int", true}, {"#off", "Int", false}, {"#len", "Int", false}, {"#cap", "Int", false}}
	case *types.Struct:
		var out []Atom
		for i := 0; i < u.NumFields(); i++ {
			f := u.Field(i)
			for _, a := range w.flatten(f.Type()) {
				out = append(out, Atom{joinPath(f.Name(), a.Path), a.Sort, a.Ref})
			}
		}
		if len(out) == 0 {
			return []Atom{} // empty struct
		}
		return out
	case *types.Tuple:
		var out []Atom
		for i := 0; i < u.Len(); i++ {
			for _, a := range w.flatten(u.At(i).Type()) {
				out = append(out, Atom{joinPath(fmt.Sprintf("%d", i), a.Path), a.Sort, a.Ref})
			}
		}
		return out
	case *types.Array:
		return []Atom{{"", "Int", false}} // arrays as values are opaque
	case *types.Pointer, *types.Map, *types.Chan:
		return []Atom{{"", "Int", true}}
	default: // signature, interface
		return []Atom{{"", "Int", false}}
	}
}

func zeroOf(sort string) string {
	if sort == "Bool" {
		return "false"
	}
	return "0"
}

func (w *World) typeKey(t types.Type) string {
	s := types.TypeString(t, func(p *types.Package) string { return p.Path() })
	s = strings.ReplaceAll(s, "|", "!")
	s = strings.ReplaceAll(s, "\\", "!")
	return s
}

// isLocalStruct reports whether t (after Named) is a struct of the verified module, or an
// external struct accessed through a pointer (fields become components too).
func structOf(t types.Type) (*types.Struct, bool) {
	s, ok := t.Underlying().(*types.Struct)
	return s, ok
}

// Comp is one heap component (an SMT array or scalar).
type Comp struct {
	Name string
	Sort string
	Ref  bool
}

// cellComps returns the components holding a value of type t stored at an address,
// aligned with flatten(t).
func (w *World) cellComps(t types.Type) []Comp {
	if _, ok := structOf(t); ok && !w.isOpaqueNamed(t) {
		var out []Comp
		for _, a := range w.flatten(t) {
			out = append(out, Comp{"F." + w.typeKey(t) + "." + a.Path, "(Array Int " + a.Sort + ")", a.Ref})
		}
		return out
	}
	var out []Comp
	for _, a := range w.flatten(t) {
		out = append(out, Comp{"M." + w.typeKey(t) + a.Path, "(Array Int " + a.Sort + ")", a.Ref})
	}
	return out
}

// fieldComps: components for the field path prefix inside struct type s holding a value of type ft.
func (w *World) fieldComps(s types.Type, prefix string, ft types.Type) []Comp {
	var out []Comp
	for _, a := range w.flatten(ft) {
		out = append(out, Comp{"F." + w.typeKey(s) + "." + joinPath(prefix, a.Path), "(Array Int " + a.Sort + ")", a.Ref})
	}
	return out
}

func (w *World) mapDomComp(mt types.Type) Comp {
	return Comp{"MD." + w.typeKey(mt), "(Array Int (Array Int Bool))", false}
}

func (w *World) mapValComps(mt types.Type) []Comp {
	m := mt.Underlying().(*types.Map)
	var out []Comp
	for _, a := range w.flatten(m.Elem()) {
		out = append(out, Comp{"MV." + w.typeKey(mt) + "~" + a.Path, "(Array Int (Array Int " + a.Sort + "))", a.Ref})
	}
	return out
}

// ---------------------------------------------------------------- values

const (
	LField = iota + 1
	LLocal
	LGlobal
)

// Loc is a non-first-class pointer: the address of a struct field, of a local variable
// that does not escape, or of a package-level variable.
type Loc struct {
	Kind   int
	Obj    string     // LField: object address term
	S      types.Type // LField: the struct type whose field arrays are used
	Prefix string     // LField/LLocal: field path
	ID     string     // LLocal: unique name of the local; LGlobal: name
	T      types.Type // type of the content
}

type Val struct {
	T         types.Type
	A         []string
	Loc       *Loc
	Tuple     []*Val
	Clos      *closureInfo
	GhostElem types.Type // for ghost arrays (T == nil): type of the elements
	AutoDeref bool       // captured variable: the value is the address of the variable's cell; specs see its content
}

func (v *Val) one() string {
	if len(v.A) != 1 {
		panic(fmt.Sprintf("value of type %v has %d atoms, expected 1", v.T, len(v.A)))
	}
	return v.A[0]
}

// ---------------------------------------------------------------- symbolic state

// State maps components to their current SMT symbol. A component not present has the
// symbol <name>@g<Gen>: Gen changes when everything is havocked.
type State struct {
	Comps map[string]string
	Gen   int
	// Formal != nil: components resolve to formal parameter names (used to build recursive spec functions)
	Formal      map[string]string
	FormalOrder []string
	// snapshots of the state at the last acquisition / release of the monitor lock on this path
	LockSnap, UnlockSnap *State
	Unframed             bool // a havoc-all that is not interference happened on this path (frames unprovable)
}

func (s *State) clone() *State {
	n := &State{Comps: make(map[string]string, len(s.Comps)), Gen: s.Gen, LockSnap: s.LockSnap, UnlockSnap: s.UnlockSnap, Unframed: s.Unframed}
	for k, v := range s.Comps {
		n.Comps[k] = v
	}
	return n
}

func sym(s string) string {
	// quote every symbol we create
	return "|" + s + "|"
}

func sortedKeys(m map[string]string) []string {
	ks := make([]string, 0, len(m))
	for k := range m {
		ks = append(ks, k)
	}
	sort.Strings(ks)
	return ks
}

// SMT helpers
func and(xs ...string) string {
	var ys []string
	for _, x := range xs {
		if x == "true" || x == "" {
			continue
		}
		if x == "false" {
			return "false"
		}
		ys = append(ys, x)
	}
	if len(ys) == 0 {
		return "true"
	}
	if len(ys) == 1 {
		return ys[0]
	}
	return "(and " + strings.Join(ys, " ") + ")"
}

func or(xs ...string) string {
	var ys []string
	for _, x := range xs {
		if x == "false" || x == "" {
			continue
		}
		if x == "true" {
			return "true"
		}
		ys = append(ys, x)
	}
	if len(ys) == 0 {
		return "false"
	}
	if len(ys) == 1 {
		return ys[0]
	}
	return "(or " + strings.Join(ys, " ") + ")"
}

func not(x string) string {
	if x == "true" {
		return "false"
	}
	if x == "false" {
		return "true"
	}
	return "(not " + x + ")"
}

func implies(a, b string) string {
	if a == "true" {
		return b
	}
	if a == "false" || b == "true" {
		return "true"
	}
	return "(=> " + a + " " + b + ")"
}

func eq(a, b string) string {
	if a == b {
		return "true"
	}
	return "(= " + a + " " + b + ")"
}

func ite(c, a, b string) string {
	if c == "true" {
		return a
	}
	if c == "false" {
		return b
	}
	if a == b {
		return a
	}
	return "(ite " + c + " " + a + " " + b + ")"
}

func sel(a, i string) string      { return "(select " + a + " " + i + ")" }
func store(a, i, v string) string { return "(store " + a + " " + i + " " + v + ")" }
func add(a, b string) string {
	if b == "0" {
		return a
	}
	if a == "0" {
		return b
	}
	return "(+ " + a + " " + b + ")"
}
func sub(a, b string) string {
	if b == "0" {
		return a
	}
	return "(- " + a + " " + b + ")"
}
func intLit(n int64) string {
	if n < 0 {
		return fmt.Sprintf("(- %d)", -n)
	}
	return fmt.Sprintf("%d", n)
}
