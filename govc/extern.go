package main

// Extern table: assumed contracts of functions outside the verified module.
// Every entry is an assumption and is reported in the evidence of each property whose
// obligations used it.

import (
	"fmt"
	"go/types"
	"strings"

	"golang.org/x/tools/go/ssa"
)

type externH struct {
	mods []string
	doc  string
	fn   func(tr *FnCtx, st *State, args []*Val, resT types.Type, instr ssa.Instruction, mode string) *Val
}

var compStopped = Comp{"$stopped", "(Array Int Bool)", false}
var compArmedDelay = Comp{"$armedDelay", "(Array Int Int)", false}
var compArmedAt = Comp{"$armedAt", "(Array Int Int)", false} // ghost clock value at which a timer was armed
var compArmedFn = Comp{"$armedFn", "(Array Int Int)", false}
var compLogsRemoved = Comp{"$logsRemoved", "(Array Int Bool)", false}
var compUUIDFailed = Comp{"$uuidFailed", "Bool", false}
var compWgWaited = Comp{"$wgWaited", "Bool", false}
var compWgTokens = Comp{"$wgTokens", "Int", false}

// ghost file system (C09): path id -> state (0 absent, 1 partial, 2 complete encoding of $fsData[path])
var compFsState = Comp{"$fsState", "(Array Int Int)", false}
var compFsData = Comp{"$fsData", "(Array Int Int)", false}
var compPathOpen = Comp{"$pathOpen", "(Array Int Bool)", false}
var compFilePath = Comp{"$filePath", "(Array Int Int)", false}
var compEncFile = Comp{"$encFile", "(Array Int Int)", false}
var compDecoded = Comp{"$decodedFrom", "(Array Int Int)", false}

func unit(resT types.Type) *Val { return &Val{T: resT} }

func (tr *FnCtx) use(name string) { tr.externUsed[name] = true }

func tupleOf(resT types.Type, vs ...*Val) *Val { return &Val{T: resT, Tuple: vs} }

var externs map[string]*externH

func externFor(name string) *externH {
	if externs == nil {
		initExterns()
	}
	return externs[name]
}

func clockTick(tr *FnCtx, st *State) string {
	old := tr.cur(st, compClock)
	nw := tr.havocComp(st, compClock)
	tr.assume("(>= " + nw + " " + old + ")")
	return nw
}

func initExterns() {
	externs = map[string]*externH{}
	lockOp := func(name string, need, set string, label string) {
		externs[name] = &externH{mods: []string{"$held"}, doc: name + ": ghost lock mode of the current goroutine (single runner mutex)",
			fn: func(tr *FnCtx, st *State, args []*Val, resT types.Type, instr ssa.Instruction, mode string) *Val {
				tr.use(name + " (ghost lock state; mutual exclusion and happens-before of sync.RWMutex assumed)")
				if !tr.lockSweep {
					return unit(resT)
				}
				held := tr.cur(st, compHeld)
				if mode == "defer" || mode == "call" {
					tr.oblige(tr.Short+"/lockproto["+label+"]", "lock", eq(held, need), name+" requires held(mx) == "+need)
				}
				isAcquire := set != "0"
				if !isAcquire {
					tr.monitorExit(st, args)
				}
				tr.set(st, compHeld, set)
				if isAcquire {
					tr.monitorEnter(st, args)
				}
				return unit(resT)
			}}
	}
	lockOp("(*sync.RWMutex).Lock", "0", "2", "noReentry")
	lockOp("(*sync.RWMutex).RLock", "0", "1", "noReentry")
	lockOp("(*sync.RWMutex).Unlock", "2", "0", "unlockHeldW")
	lockOp("(*sync.RWMutex).RUnlock", "1", "0", "unlockHeldR")

	externs["time.Now"] = &externH{mods: []string{"$clock"}, doc: "time.Now returns the ghost clock after advancing it (monotone)",
		fn: func(tr *FnCtx, st *State, args []*Val, resT types.Type, instr ssa.Instruction, mode string) *Val {
			tr.use("time.Now: successive readings are non-decreasing (ghost clock)")
			c := clockTick(tr, st)
			return &Val{T: resT, A: []string{c}}
		}}
	externs["time.Since"] = &externH{mods: []string{"$clock"}, doc: "time.Since(t) = clock - t after advancing the clock",
		fn: func(tr *FnCtx, st *State, args []*Val, resT types.Type, instr ssa.Instruction, mode string) *Val {
			tr.use("time.Since(t) == now - t with a monotone ghost clock")
			c := clockTick(tr, st)
			return &Val{T: resT, A: []string{"(- " + c + " " + args[0].one() + ")"}}
		}}
	pure := func(name, doc string, f func(tr *FnCtx, a []*Val) string) {
		externs[name] = &externH{doc: doc, fn: func(tr *FnCtx, st *State, args []*Val, resT types.Type, instr ssa.Instruction, mode string) *Val {
			tr.use(name + ": " + doc)
			return &Val{T: resT, A: []string{f(tr, args)}}
		}}
	}
	pure("(time.Time).Before", "a.Before(b) <=> a < b on the abstract time line", func(tr *FnCtx, a []*Val) string { return "(< " + a[0].one() + " " + a[1].one() + ")" })
	pure("(time.Time).After", "a.After(b) <=> a > b", func(tr *FnCtx, a []*Val) string { return "(> " + a[0].one() + " " + a[1].one() + ")" })
	pure("(time.Time).Equal", "a.Equal(b) <=> a == b", func(tr *FnCtx, a []*Val) string { return eq(a[0].one(), a[1].one()) })
	pure("(time.Time).IsZero", "t.IsZero() <=> t is the zero time (0)", func(tr *FnCtx, a []*Val) string { return eq(a[0].one(), "0") })
	pure("(time.Time).Add", "t.Add(d) == t + d", func(tr *FnCtx, a []*Val) string { return "(+ " + a[0].one() + " " + a[1].one() + ")" })
	pure("(time.Time).Sub", "a.Sub(b) == a - b", func(tr *FnCtx, a []*Val) string { return "(- " + a[0].one() + " " + a[1].one() + ")" })

	errIs := func(name string) {
		externs[name] = &externH{doc: "errors.Is(e,t): uninterpreted predicate errIs with errIs(nil,t)=false for t!=nil and errIs(e,e)=true for e!=nil",
			fn: func(tr *FnCtx, st *State, args []*Val, resT types.Type, instr ssa.Instruction, mode string) *Val {
				tr.use("errors.Is as uninterpreted predicate errIs (nil is no error; reflexive on non-nil)")
				e, t := args[0].one(), args[1].one()
				tr.assume(implies(and(eq(e, "0"), not(eq(t, "0"))), not("(errIs "+e+" "+t+")")))
				tr.assume(implies(and(eq(e, t), not(eq(e, "0"))), "(errIs "+e+" "+t+")"))
				return &Val{T: resT, A: []string{"(errIs " + e + " " + t + ")"}}
			}}
	}
	errIs("errors.Is")
	errIs("github.com/friendsofgo/errors.Is")
	newErr := func(name string) {
		externs[name] = &externH{doc: "returns a fresh non-nil error", fn: func(tr *FnCtx, st *State, args []*Val, resT types.Type, instr ssa.Instruction, mode string) *Val {
			tr.use(name + " returns a non-nil error")
			v := tr.freshVal(resT, "err")
			tr.assume(not(eq(v.one(), "0")))
			return v
		}}
	}
	for _, n := range []string{"errors.New", "fmt.Errorf", "github.com/friendsofgo/errors.New", "github.com/friendsofgo/errors.Errorf"} {
		newErr(n)
	}
	wrap := func(name string) {
		externs[name] = &externH{doc: "Wrap(err,..) is nil iff err is nil and preserves errors.Is", fn: func(tr *FnCtx, st *State, args []*Val, resT types.Type, instr ssa.Instruction, mode string) *Val {
			tr.use(name + ": result is nil iff the wrapped error is nil")
			v := tr.freshVal(resT, "werr")
			tr.assume(eq(eq(v.one(), "0"), eq(args[0].one(), "0")))
			return v
		}}
	}
	for _, n := range []string{"github.com/friendsofgo/errors.Wrap", "github.com/friendsofgo/errors.Wrapf", "github.com/friendsofgo/errors.WithMessage", "github.com/friendsofgo/errors.WithStack"} {
		wrap(n)
	}
	externs["time.AfterFunc"] = &externH{mods: []string{"$alloc", "$pub", "$armedDelay", "$armedAt", "$armedFn", "$stopped"}, doc: "time.AfterFunc(d,f) returns a fresh non-nil timer armed with delay d and callback f",
		fn: func(tr *FnCtx, st *State, args []*Val, resT types.Type, instr ssa.Instruction, mode string) *Val {
			tr.use("time.AfterFunc returns a fresh non-nil *Timer; it calls f once, not earlier than d, unless stopped (timing itself is not modelled)")
			t := tr.newObj(st)
			tr.set(st, compArmedDelay, store(tr.cur(st, compArmedDelay), t, args[0].one()))
			tr.set(st, compArmedAt, store(tr.cur(st, compArmedAt), t, tr.cur(st, compClock)))
			fnid := "0"
			if args[1].Clos != nil {
				fnid = tr.fnConst(args[1].Clos.Fn)
				tr.afterFuncs = append(tr.afterFuncs, args[1].Clos)
			}
			tr.set(st, compArmedFn, store(tr.cur(st, compArmedFn), t, fnid))
			tr.set(st, compStopped, store(tr.cur(st, compStopped), t, "false"))
			return &Val{T: resT, A: []string{t}}
		}}
	externs["(*time.Timer).Stop"] = &externH{mods: []string{"$stopped"}, doc: "Stop disarms the timer (ghost $stopped)",
		fn: func(tr *FnCtx, st *State, args []*Val, resT types.Type, instr ssa.Instruction, mode string) *Val {
			tr.use("(*time.Timer).Stop marks the timer stopped (ghost)")
			tr.set(st, compStopped, store(tr.cur(st, compStopped), args[0].one(), "true"))
			return tr.freshVal(resT, "stopres")
		}}
	externs["github.com/gofrs/uuid.NewV4"] = &externH{mods: []string{"$uuidFailed"}, doc: "uuid.NewV4 returns an id that is non-zero and not a key of any existing UUID-keyed map, or an error",
		fn: func(tr *FnCtx, st *State, args []*Val, resT types.Type, instr ssa.Instruction, mode string) *Val {
			tr.use("uuid.NewV4: a returned id is non-zero and collides with no key of any UUID-keyed map (collision freedom of random UUIDs assumed)")
			tup := resT.(*types.Tuple)
			id := tr.freshVal(tup.At(0).Type(), "uuid")
			err := tr.freshVal(tup.At(1).Type(), "uuiderr")
			ok := eq(err.one(), "0")
			tr.assume(implies(ok, not(eq(id.one(), "0"))))
			for _, k := range sortedKeysS(tr.comps) {
				if strings.HasPrefix(k, "MD.map[github.com/gofrs/uuid.UUID]") {
					c := Comp{k, tr.comps[k], false}
					tr.assume(implies(ok, fmt.Sprintf("(forall ((m Int)) (! (not (select (select %s m) %s)) :pattern ((select %s m))))", tr.cur(st, c), id.one(), tr.cur(st, c))))
				}
			}
			tr.set(st, compUUIDFailed, not(ok))
			// no existing job object carries this id either
			for _, k := range sortedKeysS(tr.comps) {
				if strings.HasSuffix(k, ".ID") && strings.HasPrefix(k, "F.") && tr.comps[k] == "(Array Int Int)" {
					c := Comp{k, tr.comps[k], false}
					tr.assume(implies(ok, fmt.Sprintf("(forall ((x Int)) (! (=> (isold x %s) (not (= (select %s x) %s))) :pattern ((select %s x))))", tr.cur(st, compAlloc), tr.cur(st, c), id.one(), tr.cur(st, c))))
				}
			}
			tr.uuidFresh = append(tr.uuidFresh, id.one())
			return tupleOf(resT, id, err)
		}}
	externs["(github.com/gofrs/uuid.UUID).String"] = &externH{doc: "UUID.String is injective (FromString inverts it)",
		fn: func(tr *FnCtx, st *State, args []*Val, resT types.Type, instr ssa.Instruction, mode string) *Val {
			tr.use("uuid.FromString(id.String()) == id")
			s := "(uf1 1 " + args[0].one() + ")"
			tr.assume(eq("(uf1 2 "+s+")", args[0].one()))
			return &Val{T: resT, A: []string{s}}
		}}
	// sorting: the elements of the slice's backing array are permuted; nothing else changes
	sortH := func(name string) {
		externs[name] = &externH{mods: nil, doc: name + " permutes the elements of the given slice in place (order per the less function); no other memory changes",
			fn: func(tr *FnCtx, st *State, args []*Val, resT types.Type, instr ssa.Instruction, mode string) *Val {
				tr.use(name + ": permutes the slice in place; the resulting order is assumed to follow the less function (sort package)")
				ci, ok := instr.(ssa.CallInstruction)
				if !ok {
					tr.havocAll(st)
					return unit(resT)
				}
				var sv ssa.Value = ci.Common().Args[0]
				if mi, ok := sv.(*ssa.MakeInterface); ok {
					sv = mi.X
				}
				sl, ok := sv.Type().Underlying().(*types.Slice)
				v := tr.val(sv)
				if !ok || len(v.A) != 4 {
					tr.note(name + " on a non-slice value: everything havocked")
					tr.havocAll(st)
					return unit(resT)
				}
				// one rearrangement function for all components of the element type: the result is a permutation of the input
				tr.n++
				pf := fmt.Sprintf("sortperm!%d", tr.n)
				tr.emit("(declare-fun " + pf + " (Int) Int)")
				in := func(x string) string {
					return fmt.Sprintf("(and (< %s 0) (= (elemB %s) %s) (<= %s (elemI %s)) (< (elemI %s) (+ %s %s)))", x, x, v.A[0], v.A[1], x, x, v.A[1], v.A[2])
				}
				for _, cc := range tr.W.cellComps(sl.Elem()) {
					old := tr.cur(st, cc)
					nw := tr.havocComp(st, cc)
					tr.assumeRaw(fmt.Sprintf("(forall ((a Int)) (! (ite %s (and %s (= (select %s a) (select %s (%s a)))) (= (select %s a) (select %s a))) :pattern ((select %s a))))",
						in("a"), in("("+pf+" a)"), nw, old, pf, nw, old, nw))
				}
				return unit(resT)
			}}
	}
	sortH("sort.Slice")
	sortH("sort.SliceStable")
	sortH("sort.Strings")
	fsMods := []string{"$fsState", "$fsData", "$pathOpen", "$filePath", "$encFile", "$decodedFrom", "$alloc", "$pub"}
	unboxArg := func(tr *FnCtx, instr ssa.Instruction, i int) *Val {
		ci, ok := instr.(ssa.CallInstruction)
		if !ok {
			return nil
		}
		args := ci.Common().Args
		if ci.Common().IsInvoke() {
			// invoke: Args excludes the receiver
		}
		if i >= len(args) {
			return nil
		}
		if mi, ok := args[i].(*ssa.MakeInterface); ok {
			return tr.val(mi.X)
		}
		return nil
	}
	externs["path.Join"] = &externH{doc: "path.Join(dir, name): uninterpreted, injective enough: pathDir(join(d,n)) == d; a name not ending in .tmp is not a temp name",
		fn: func(tr *FnCtx, st *State, args []*Val, resT types.Type, instr ssa.Instruction, mode string) *Val {
			tr.use("path.Join(dir,name) is a function of its arguments with directory dir; \"data.json\" is not a *.tmp name")
			// variadic: args[0] is the slice of elements; recover the two elements syntactically
			ci := instr.(ssa.CallInstruction)
			elems, ok := tr.constSliceElems(ci.Common().Args[0])
			if !ok || len(elems) != 2 {
				return tr.freshVal(resT, "path")
			}
			d, n := tr.val(elems[0]).one(), tr.val(elems[1]).one()
			p := "(uf2 23 " + d + " " + n + ")"
			tr.assume(eq("(uf1 21 "+p+")", d))
			if c, ok := elems[1].(*ssa.Const); ok && c.Value != nil && !strings.HasSuffix(c.Value.ExactString(), ".tmp\"") {
				tr.assume(eq("(uf1 22 "+p+")", "0"))
			}
			return &Val{T: resT, A: []string{p}}
		}}
	externs["os.CreateTemp"] = &externH{mods: fsMods, doc: "os.CreateTemp(dir, pattern) creates a NEW file in dir (a path that had no file), opened for writing, initially partial",
		fn: func(tr *FnCtx, st *State, args []*Val, resT types.Type, instr ssa.Instruction, mode string) *Val {
			tr.use("os.CreateTemp creates a new, previously absent file in the given directory whose name matches the *.tmp pattern; its content is partial until completely written")
			tup := resT.(*types.Tuple)
			err := tr.freshVal(tup.At(1).Type(), "cterr")
			ok := eq(err.one(), "0")
			f := tr.newObj(st)
			p := tr.freshConst("tmppath", "Int")
			fsS := tr.cur(st, compFsState)
			tr.assume(implies(ok, and(eq(sel(fsS, p), "0"), eq("(uf1 21 "+p+")", args[0].one()), eq("(uf1 22 "+p+")", "1"), not(eq(p, "0")))))
			tr.set(st, compFsState, ite(ok, store(fsS, p, "1"), fsS))
			tr.set(st, compPathOpen, ite(ok, store(tr.cur(st, compPathOpen), p, "true"), tr.cur(st, compPathOpen)))
			tr.set(st, compFilePath, store(tr.cur(st, compFilePath), f, p))
			fv := &Val{T: tup.At(0).Type(), A: []string{ite(ok, f, "0")}}
			return tupleOf(resT, fv, err)
		}}
	externs["os.RemoveAll"] = &externH{mods: fsMods, doc: "os.RemoveAll(path): on success nothing exists at path any more (entries below it are not modelled separately); on failure the file system is unconstrained at that path only",
		fn: func(tr *FnCtx, st *State, args []*Val, resT types.Type, instr ssa.Instruction, mode string) *Val {
			tr.use("os.RemoveAll(path) returning nil means path (and everything below it) no longer exists; it touches no other path")
			err := tr.freshVal(resT, "rmerr")
			ok := eq(err.one(), "0")
			p := args[0].one()
			fsS := tr.cur(st, compFsState)
			left := tr.freshConst("rmleft", "Int")
			tr.set(st, compFsState, store(fsS, p, ite(ok, "0", left)))
			return err
		}}
	externs["os.Open"] = &externH{mods: fsMods, doc: "os.Open(path): fails with ErrNotExist iff no file exists at path; never changes the file system",
		fn: func(tr *FnCtx, st *State, args []*Val, resT types.Type, instr ssa.Instruction, mode string) *Val {
			tr.use("os.Open(path) returns an error satisfying errors.Is(err, os.ErrNotExist) iff the path has no file")
			tup := resT.(*types.Tuple)
			err := tr.freshVal(tup.At(1).Type(), "operr")
			f := tr.newObj(st)
			p := args[0].one()
			notExist := tr.globalAtoms("os.ErrNotExist", types.Universe.Lookup("error").Type())[0]
			absent := eq(sel(tr.cur(st, compFsState), p), "0")
			tr.assume(implies(absent, and(not(eq(err.one(), "0")), "(errIs "+err.one()+" "+notExist+")")))
			tr.assume(implies(not(absent), not("(errIs "+err.one()+" "+notExist+")")))
			tr.set(st, compFilePath, store(tr.cur(st, compFilePath), f, p))
			return tupleOf(resT, &Val{T: tup.At(0).Type(), A: []string{ite(eq(err.one(), "0"), f, "0")}}, err)
		}}
	externs["(*os.File).Name"] = &externH{doc: "the path the file was created/opened with", fn: func(tr *FnCtx, st *State, args []*Val, resT types.Type, instr ssa.Instruction, mode string) *Val {
		tr.use("(*os.File).Name returns the path the file was created with")
		return &Val{T: resT, A: []string{sel(tr.cur(st, compFilePath), args[0].one())}}
	}}
	externs["(*os.File).Close"] = &externH{mods: fsMods, doc: "Close marks the file's path as no longer open for writing", fn: func(tr *FnCtx, st *State, args []*Val, resT types.Type, instr ssa.Instruction, mode string) *Val {
		tr.use("(*os.File).Close closes the file (the ignored Close error is not modelled)")
		p := sel(tr.cur(st, compFilePath), args[0].one())
		tr.set(st, compPathOpen, store(tr.cur(st, compPathOpen), p, "false"))
		return tr.freshVal(resT, "closeerr")
	}}
	externs["os.Rename"] = &externH{mods: fsMods, doc: "os.Rename(src,dst) atomically moves src over dst (same directory, POSIX rename); on error nothing changes",
		fn: func(tr *FnCtx, st *State, args []*Val, resT types.Type, instr ssa.Instruction, mode string) *Val {
			tr.use("os.Rename within one directory atomically replaces dst by src (POSIX rename); on error the file system is unchanged")
			src, dst := args[0].one(), args[1].one()
			fsS := tr.cur(st, compFsState)
			fsD := tr.cur(st, compFsData)
			tr.oblige(tr.Short+"/extern-pre[os.Rename.srcComplete]", "call-pre", eq(sel(fsS, src), "2"), "the file published by Rename is a complete encoding")
			tr.oblige(tr.Short+"/extern-pre[os.Rename.srcClosed]", "call-pre", not(sel(tr.cur(st, compPathOpen), src)), "the file published by Rename has been closed")
			tr.oblige(tr.Short+"/extern-pre[os.Rename.sameDir]", "call-pre", eq("(uf1 21 "+src+")", "(uf1 21 "+dst+")"), "source and target of Rename are in the same directory (atomic rename)")
			err := tr.freshVal(resT, "rnerr")
			ok := eq(err.one(), "0")
			tr.set(st, compFsState, ite(ok, store(store(fsS, dst, sel(fsS, src)), src, "0"), fsS))
			tr.set(st, compFsData, ite(ok, store(fsD, dst, sel(fsD, src)), fsD))
			return err
		}}
	externs["(github.com/json-iterator/go.API).NewEncoder"] = &externH{mods: fsMods, doc: "NewEncoder(w) binds the encoder to the file w",
		fn: func(tr *FnCtx, st *State, args []*Val, resT types.Type, instr ssa.Instruction, mode string) *Val {
			tr.use("jsoniter NewEncoder/Encode write the complete encoding of the value to the bound file, or fail leaving it partial")
			enc := tr.newObj(st)
			if f := unboxArg(tr, instr, 0); f != nil && len(f.A) == 1 {
				tr.set(st, compEncFile, store(tr.cur(st, compEncFile), enc, f.A[0]))
			}
			return &Val{T: resT, A: []string{enc}}
		}}
	externs["(*github.com/json-iterator/go.Encoder).Encode"] = &externH{mods: fsMods, doc: "Encode(v): on success the bound file holds the complete encoding of v; on error it stays partial",
		fn: func(tr *FnCtx, st *State, args []*Val, resT types.Type, instr ssa.Instruction, mode string) *Val {
			tr.use("jsoniter NewEncoder/Encode write the complete encoding of the value to the bound file, or fail leaving it partial")
			err := tr.freshVal(resT, "encerr")
			ok := eq(err.one(), "0")
			f := sel(tr.cur(st, compEncFile), args[0].one())
			p := sel(tr.cur(st, compFilePath), f)
			data := "0"
			if d := unboxArg(tr, instr, 1); d != nil && len(d.A) == 1 && d.T != nil {
				if _, isPtr := d.T.Underlying().(*types.Pointer); isPtr {
					data = d.A[0]
				}
			}
			fsS := tr.cur(st, compFsState)
			fsD := tr.cur(st, compFsData)
			tr.set(st, compFsState, ite(ok, store(fsS, p, "2"), store(fsS, p, "1")))
			tr.set(st, compFsData, ite(ok, store(fsD, p, data), fsD))
			return err
		}}
	externs["(github.com/json-iterator/go.API).NewDecoder"] = &externH{mods: fsMods, doc: "NewDecoder(r) binds the decoder to the file r",
		fn: func(tr *FnCtx, st *State, args []*Val, resT types.Type, instr ssa.Instruction, mode string) *Val {
			tr.use("jsoniter NewDecoder/Decode: decoding a complete encoding of d yields d (codec round trip assumed, not proved)")
			dec := tr.newObj(st)
			if f := unboxArg(tr, instr, 0); f != nil && len(f.A) == 1 {
				tr.set(st, compEncFile, store(tr.cur(st, compEncFile), dec, f.A[0]))
			}
			return &Val{T: resT, A: []string{dec}}
		}}
	externs["(*github.com/json-iterator/go.Decoder).Decode"] = &externH{mods: fsMods, doc: "Decode(&v): on success v is the value whose complete encoding the file holds",
		fn: func(tr *FnCtx, st *State, args []*Val, resT types.Type, instr ssa.Instruction, mode string) *Val {
			tr.use("jsoniter NewDecoder/Decode: decoding a complete encoding of d yields d (codec round trip assumed, not proved)")
			err := tr.freshVal(resT, "decerr")
			ok := eq(err.one(), "0")
			f := sel(tr.cur(st, compEncFile), args[0].one())
			p := sel(tr.cur(st, compFilePath), f)
			if d := unboxArg(tr, instr, 1); d != nil && len(d.A) == 1 && d.Loc == nil {
				if pt, isPtr := d.T.Underlying().(*types.Pointer); isPtr {
					for _, c := range tr.W.cellComps(pt.Elem()) {
						old := tr.cur(st, c)
						tr.set(st, c, store(old, d.A[0], tr.freshConst("dec", elemSort(c.Sort))))
					}
				}
				dd := tr.cur(st, compDecoded)
				tr.set(st, compDecoded, ite(and(ok, eq(sel(tr.cur(st, compFsState), p), "2")), store(dd, d.A[0], sel(tr.cur(st, compFsData), p)), dd))
			} else {
				tr.note("Decode into a non-first-class pointer: everything havocked")
				tr.havocAllKeepHeld(st, nil)
			}
			return err
		}}
	// upstream taskctl scheduler graph: statuses are cells of Stage.Status; the dependency list and node lookup are
	// deterministic functions of the (immutable after construction) graph
	const stPkg = "github.com/taskctl/taskctl/pkg/scheduler"
	stageStatusLoc := func(tr *FnCtx, stage *Val) *Val {
		var st types.Type
		if p := tr.W.Prog.ImportedPackage(stPkg); p != nil {
			st = p.Pkg.Scope().Lookup("Stage").Type()
		}
		if st == nil {
			return nil
		}
		var ft types.Type
		stru := st.Underlying().(*types.Struct)
		for i := 0; i < stru.NumFields(); i++ {
			if stru.Field(i).Name() == "Status" {
				ft = stru.Field(i).Type()
			}
		}
		return &Val{T: types.NewPointer(ft), Loc: &Loc{Kind: LField, Obj: stage.one(), S: st, Prefix: "Status", T: ft}}
	}
	externs["(*"+stPkg+".Stage).ReadStatus"] = &externH{doc: "ReadStatus: atomic load of Stage.Status", fn: func(tr *FnCtx, st *State, args []*Val, resT types.Type, instr ssa.Instruction, mode string) *Val {
		tr.use("scheduler.Stage.ReadStatus/UpdateStatus are an atomic load/store of the Status field")
		l := stageStatusLoc(tr, args[0])
		if l == nil {
			return tr.freshVal(resT, "status")
		}
		return tr.loadFrom(st, l, resT)
	}}
	externs["(*"+stPkg+".Stage).UpdateStatus"] = &externH{mods: []string{"scheduler.Stage.Status", "$statusStores"}, doc: "UpdateStatus: atomic store of Stage.Status (counted in ghost $statusStores when that ghost is declared)", fn: func(tr *FnCtx, st *State, args []*Val, resT types.Type, instr ssa.Instruction, mode string) *Val {
		tr.use("scheduler.Stage.ReadStatus/UpdateStatus are an atomic load/store of the Status field")
		l := stageStatusLoc(tr, args[0])
		if l != nil {
			tr.storeTo(st, l, &Val{T: l.Loc.T, A: args[1].A})
		}
		// every status store is counted, so that contracts can demand that each one is accounted for by an anchored justification
		if _, ok := tr.W.C.Ghosts["$statusStores"]; ok {
			if cs := tr.resolveComps("$statusStores", tr.Pkg); len(cs) == 1 {
				tr.set(st, cs[0], add(tr.cur(st, cs[0]), "1"))
			}
		}
		return unit(resT)
	}}
	externs["(*"+stPkg+".ExecutionGraph).To"] = &externH{doc: "To(name): the dependency names of the stage, a function of the graph", fn: func(tr *FnCtx, st *State, args []*Val, resT types.Type, instr ssa.Instruction, mode string) *Val {
		tr.use("scheduler.ExecutionGraph.To/Node are deterministic functions of an immutable graph (To: dependency names, Node: stage by name)")
		g, n := args[0].one(), args[1].one()
		ln := "(uf2 31 " + g + " " + n + ")"
		tr.assume("(>= " + ln + " 0)")
		return &Val{T: resT, A: []string{"(uf2 30 " + g + " " + n + ")", "0", ln, ln}}
	}}
	externs["(*"+stPkg+".ExecutionGraph).Node"] = &externH{doc: "Node(name): the stage registered under the name", fn: func(tr *FnCtx, st *State, args []*Val, resT types.Type, instr ssa.Instruction, mode string) *Val {
		tr.use("scheduler.ExecutionGraph.To/Node are deterministic functions of an immutable graph (To: dependency names, Node: stage by name)")
		tup := resT.(*types.Tuple)
		err := tr.freshVal(tup.At(1).Type(), "nodeerr")
		return tupleOf(resT, &Val{T: tup.At(0).Type(), A: []string{"(uf2 32 " + args[0].one() + " " + args[1].one() + ")"}}, err)
	}}
	externs["github.com/taskctl/taskctl/pkg/task.FromCommands"] = &externH{mods: []string{"$alloc", "$pub"}, doc: "task.FromCommands returns a freshly allocated task",
		fn: func(tr *FnCtx, st *State, args []*Val, resT types.Type, instr ssa.Instruction, mode string) *Val {
			tr.use("task.FromCommands returns a freshly allocated, non-nil *task.Task")
			return &Val{T: resT, A: []string{tr.newObj(st)}}
		}}
	externs["(*gopkg.in/yaml.v2.Decoder).Decode"] = &externH{mods: nil, doc: "yaml Decode(&v) writes only the pointee v; every map/slice/pointer it stores there is freshly allocated (or nil)",
		fn: func(tr *FnCtx, st *State, args []*Val, resT types.Type, instr ssa.Instruction, mode string) *Val {
			tr.use("yaml.v2 Decoder.Decode(&v) writes only through its argument: the pointee is overwritten with freshly allocated (or nil) maps/slices; existing memory is unchanged")
			err := tr.freshVal(resT, "yamlerr")
			d := unboxArg(tr, instr, 1)
			if d == nil || len(d.A) != 1 || d.Loc != nil {
				tr.note("yaml Decode into a non-first-class pointer: everything havocked")
				tr.havocAllKeepHeld(st, nil)
				return err
			}
			pt, ok := d.T.Underlying().(*types.Pointer)
			if !ok {
				tr.havocAllKeepHeld(st, nil)
				return err
			}
			a0 := tr.cur(st, compAlloc)
			na := tr.havocComp(st, compAlloc)
			tr.assume("(>= " + na + " " + a0 + ")")
			atoms := tr.W.flatten(pt.Elem())
			for i, c := range tr.W.cellComps(pt.Elem()) {
				old := tr.cur(st, c)
				fv := tr.freshConst("yaml", elemSort(c.Sort))
				tr.set(st, c, store(old, d.A[0], fv))
				if i < len(atoms) && atoms[i].Ref {
					tr.assume(or(eq(fv, "0"), and("(>= "+fv+" "+a0+")", "(< "+fv+" "+na+")")))
				}
			}
			return err
		}}
	externs["(*sync.WaitGroup).Add"] = &externH{mods: []string{"$wgTokens"}, doc: "WaitGroup.Add(n): ghost token counter += n",
		fn: func(tr *FnCtx, st *State, args []*Val, resT types.Type, instr ssa.Instruction, mode string) *Val {
			tr.use("sync.WaitGroup: ghost token counter $wgTokens (Add adds, Done removes one); Wait returns when it is zero")
			tr.set(st, compWgTokens, "(+ "+tr.cur(st, compWgTokens)+" "+args[1].one()+")")
			return unit(resT)
		}}
	externs["(*sync.WaitGroup).Done"] = &externH{mods: []string{"$wgTokens"}, doc: "WaitGroup.Done: ghost token counter -= 1",
		fn: func(tr *FnCtx, st *State, args []*Val, resT types.Type, instr ssa.Instruction, mode string) *Val {
			tr.use("sync.WaitGroup: ghost token counter $wgTokens (Add adds, Done removes one); Wait returns when it is zero")
			tr.set(st, compWgTokens, "(- "+tr.cur(st, compWgTokens)+" 1)")
			return unit(resT)
		}}
	externs["(*sync.WaitGroup).Wait"] = &externH{mods: []string{"$wgWaited"}, doc: "WaitGroup.Wait returns when the counter is zero (ghost $wgWaited records that the wait happened)",
		fn: func(tr *FnCtx, st *State, args []*Val, resT types.Type, instr ssa.Instruction, mode string) *Val {
			tr.use("sync.WaitGroup: Wait returns after every Add has been matched by a Done (ghost flag $wgWaited only records the call)")
			tr.set(st, compWgWaited, "true")
			return unit(resT)
		}}
	externs["sync/atomic.LoadInt32"] = &externH{doc: "atomic load of the addressed cell", fn: func(tr *FnCtx, st *State, args []*Val, resT types.Type, instr ssa.Instruction, mode string) *Val {
		tr.use("sync/atomic.LoadInt32/StoreInt32 read/write the addressed cell (sequentially consistent)")
		return tr.loadFrom(st, args[0], resT)
	}}
	externs["sync/atomic.StoreInt32"] = &externH{mods: nil, doc: "atomic store", fn: func(tr *FnCtx, st *State, args []*Val, resT types.Type, instr ssa.Instruction, mode string) *Val {
		tr.use("sync/atomic.LoadInt32/StoreInt32 read/write the addressed cell (sequentially consistent)")
		tr.storeTo(st, args[0], &Val{T: args[1].T, A: args[1].A})
		return unit(resT)
	}}
	// sort.Sort(data): calls data.Len/Less/Swap; the effect is that of repeated Swap calls
	externs["sort.Sort"] = &externH{doc: "sort.Sort(data) only calls data.Len, data.Less and data.Swap: it modifies what Swap's contract modifies",
		fn: func(tr *FnCtx, st *State, args []*Val, resT types.Type, instr ssa.Instruction, mode string) *Val {
			tr.use("sort.Sort(data) has the effect of a sequence of data.Swap calls (contract of the Swap method)")
			cs, all := tr.sortSortMods(instr)
			if all {
				tr.note("sort.Sort on a value whose Swap has no contract: everything havocked")
				tr.havocAll(st)
				return unit(resT)
			}
			for _, c := range cs {
				tr.havocComp(st, c)
			}
			return unit(resT)
		}}
	externs["github.com/gofrs/uuid.FromString"] = &externH{doc: "inverse of UUID.String on valid ids",
		fn: func(tr *FnCtx, st *State, args []*Val, resT types.Type, instr ssa.Instruction, mode string) *Val {
			tr.use("uuid.FromString(id.String()) == id")
			tup := resT.(*types.Tuple)
			err := tr.freshVal(tup.At(1).Type(), "uerr")
			return tupleOf(resT, &Val{T: tup.At(0).Type(), A: []string{"(uf1 2 " + args[0].one() + ")"}}, err)
		}}
}

// monitor invariants: assumed when the lock is acquired, checked when it is released.
func (tr *FnCtx) monitorVars(args []*Val) map[string]*Val {
	if len(args) == 0 || args[0].Loc == nil || args[0].Loc.Kind != LField {
		return nil
	}
	l := args[0].Loc
	return map[string]*Val{"r": {T: types.NewPointer(l.S), A: []string{l.Obj}}}
}

// havocShared: while this goroutine did not hold the lock, other goroutines may have changed every shared
// location. Local variables (L.*) and ghost state of this goroutine survive; everything else is unknown
// again, constrained only by the monitor invariant and the declared rely conditions.
func (tr *FnCtx) havocShared(st *State) {
	prev := st.clone()
	tr.interfered = true
	unframed := st.Unframed
	defer func() { st.Unframed = unframed }()
	keep := map[string]string{}
	for k, sort := range tr.comps {
		if strings.HasPrefix(k, "L.") || strings.HasPrefix(k, "$") {
			keep[k] = tr.cur(st, Comp{k, sort, false})
		}
	}
	tr.havocAll(st)
	for k, v := range keep {
		st.Comps[k] = v
	}
	if tr.genPrev == nil {
		tr.genPrev = map[int]*State{}
	}
	tr.genPrev[st.Gen] = prev
	a0 := tr.cur(prev, compAlloc)
	na := tr.havocComp(st, compAlloc)
	tr.assume("(>= " + na + " " + a0 + ")")
	tr.use("interference: captured variables and unpublished objects of a goroutine are not written by other goroutines")
}

func (tr *FnCtx) hasRelies() bool {
	for _, m := range tr.W.C.Relies {
		if m.Pkg == tr.Pkg.Path() {
			return true
		}
	}
	return false
}

// interference: other critical sections run while this goroutine does not hold the lock; afterwards only the
// rely conditions (relative to the state before) are known about shared state. The receiver variable of the rely
// clauses is taken from the callee's receiver when the contract names it r.
func (tr *FnCtx) interference(st *State, vars map[string]*Val) {
	prev := st.clone()
	tr.havocShared(st)
	rv := map[string]*Val{}
	if v, ok := vars["r"]; ok {
		rv["r"] = v
	} else {
		return
	}
	for _, m := range tr.W.C.Relies {
		if m.Pkg != tr.Pkg.Path() {
			continue
		}
		env := &Env{tr: tr, vars: rv, st: st, old: prev, pkg: tr.Pkg, allocOld: tr.cur(prev, compAlloc), assuming: true}
		tr.assume(tr.evalClause(env, m.Cl))
	}
}

func (tr *FnCtx) monitorEnter(st *State, args []*Val) {
	vars := tr.monitorVars(args)
	if vars == nil {
		return
	}
	if (st.UnlockSnap != nil || tr.ghostCounts["unlock"] > 0) && len(tr.W.C.Relies) > 0 {
		// re-acquisition: interference by other critical sections since the last release
		prev := st.UnlockSnap
		tr.havocShared(st)
		if prev != nil {
			for _, m := range tr.W.C.Relies {
				if m.Pkg != tr.Pkg.Path() {
					continue
				}
				env := &Env{tr: tr, vars: vars, st: st, old: prev, pkg: tr.Pkg, allocOld: tr.cur(prev, compAlloc), assuming: true}
				tr.assume(tr.evalClause(env, m.Cl))
			}
		}
	}
	for _, m := range tr.W.C.Monitors {
		if m.Pkg != tr.Pkg.Path() {
			continue
		}
		env := &Env{tr: tr, vars: vars, st: st, old: tr.entry, pkg: tr.Pkg, allocOld: tr.allocEntry}
		tr.assume(tr.evalClause(env, m.Cl))
	}
	st.LockSnap = nil
	st.LockSnap = st.clone()
	tr.applyEntryAssumes(st)
}

func (tr *FnCtx) monitorExit(st *State, args []*Val) {
	vars := tr.monitorVars(args)
	if vars == nil {
		return
	}
	tr.ghostCounts["unlock"]++
	for _, m := range tr.W.C.Monitors {
		if m.Pkg != tr.Pkg.Path() {
			continue
		}
		old := tr.entry
		if st.LockSnap != nil {
			old = st.LockSnap
		}
		env := &Env{tr: tr, vars: vars, st: st, old: old, pkg: tr.Pkg, allocOld: tr.allocEntry}
		tr.oblige(fmt.Sprintf("%s/monitor[%s]", tr.Short, m.Cl.Label), "monitor", tr.evalClause(env, m.Cl), m.Cl.Src)
	}
	// guarantee: the rely conditions of the package hold between acquisition and release of this critical section
	if st.LockSnap != nil {
		for _, m := range tr.W.C.Relies {
			if m.Pkg != tr.Pkg.Path() {
				continue
			}
			env := &Env{tr: tr, vars: vars, st: st, old: st.LockSnap, pkg: tr.Pkg, allocOld: tr.cur(st.LockSnap, compAlloc)}
			tr.oblige(fmt.Sprintf("%s/guarantee[%s]", tr.Short, m.Cl.Label), "monitor", tr.evalClause(env, m.Cl), m.Cl.Src+" (guaranteed by this critical section)")
		}
	}
	st.UnlockSnap = nil
	st.UnlockSnap = st.clone()
}

func (tr *FnCtx) sortSortMods(instr ssa.Instruction) ([]Comp, bool) {
	ci, ok := instr.(ssa.CallInstruction)
	if !ok || len(ci.Common().Args) == 0 {
		return nil, true
	}
	mi, ok := ci.Common().Args[0].(*ssa.MakeInterface)
	if !ok {
		return nil, true
	}
	ms := tr.W.Prog.MethodSets.MethodSet(mi.X.Type())
	sel := ms.Lookup(nil, "Swap")
	if sel == nil {
		for i := 0; i < ms.Len(); i++ {
			if ms.At(i).Obj().Name() == "Swap" {
				sel = ms.At(i)
			}
		}
	}
	if sel == nil {
		return nil, true
	}
	fn := tr.W.Prog.MethodValue(sel)
	if fn == nil || fnPkg(fn) == nil {
		return nil, true
	}
	spec := tr.W.C.Funcs[pkgKey(fnPkg(fn).Pkg.Path(), fnRelName(fn))]
	if spec == nil {
		return nil, true
	}
	return tr.specMods(spec, fnPkg(fn).Pkg)
}
