package main

import (
	"encoding/json"
	"flag"
	"fmt"
	"os"
	"path/filepath"
	"regexp"
	"runtime"
	"sort"
	"strconv"
	"strings"
	"time"

	"golang.org/x/tools/go/ssa"
)

type funcReport struct {
	Name        string   `json:"name"`
	Obligations int      `json:"obligations"`
	Notes       []string `json:"abstractions,omitempty"`
	Unsupported []string `json:"unsupported,omitempty"`
}

type runCtx struct {
	w        *World
	verif    string
	tier     string
	seed     int
	timeoutS int
	workers  int
	scratch  string
	split    bool
}

func main() {
	if len(os.Args) < 2 {
		fmt.Println("usage: govc check|dump|list ...")
		os.Exit(2)
	}
	cmd := os.Args[1]
	fs := flag.NewFlagSet(cmd, flag.ExitOnError)
	repo := fs.String("repo", "/repo", "repository under verification")
	verif := fs.String("verif", "/verif", "verification directory")
	prop := fs.String("property", "", "property id")
	tier := fs.String("tier", "quick", "quick|thorough")
	fn := fs.String("func", "", "function (dump)")
	obl := fs.String("obl", "", "obligation glob (dump)")
	split := fs.Bool("split", false, "dump: split conjunctive goals into separate queries")
	safetyAll := fs.Bool("safety-all", false, "dump: generate safety obligations (nil deref, bounds, nil map write) for every function under contract")
	timeout := fs.Int("timeout", 0, "per-obligation solver timeout in seconds")
	fs.Parse(os.Args[2:])
	if t := os.Getenv("VERIF_TIER"); t == "quick" || t == "thorough" {
		*tier = t
	}
	seed := 0
	if s := os.Getenv("VERIF_SEED"); s != "" {
		seed, _ = strconv.Atoi(s)
	}
	t0 := time.Now()
	w, err := LoadWorld(*repo)
	if err != nil {
		fmt.Fprintf(os.Stderr, "govc: %v\n", err)
		if cmd == "check" && *prop != "" {
			// a tree that does not load cannot be verified: report as violation of the property
			rc := &runCtx{verif: *verif, tier: *tier, seed: seed}
			rc.failHard(*prop, "load", err.Error(), time.Since(t0).Seconds())
			os.Exit(1)
		}
		os.Exit(2)
	}
	w.LoadS = time.Since(t0).Seconds()
	rc := &runCtx{w: w, verif: *verif, tier: *tier, seed: seed, workers: runtime.NumCPU() * 3 / 4}
	if rc.workers < 2 {
		rc.workers = 2
	}
	// generous timeouts: obligations that hold discharge in seconds; only failing ones wait this long
	rc.timeoutS = 45
	if *tier == "thorough" {
		rc.timeoutS = 120
	}
	if *timeout > 0 {
		rc.timeoutS = *timeout
	}
	dir, err := os.MkdirTemp("", "govc-")
	if err != nil {
		fmt.Fprintln(os.Stderr, err)
		os.Exit(2)
	}
	rc.scratch = dir
	code := 0
	switch cmd {
	case "check":
		code = rc.check(*prop, t0)
	case "dump":
		rc.split = *split
		if *safetyAll {
			for _, sp := range w.C.Funcs {
				sp.Safety = true
			}
		}
		code = rc.dump(*fn, *obl)
	case "list":
		for _, n := range w.FuncNamesIn(w.ModPath) {
			fmt.Println(n)
		}
	case "audit":
		// which obligations does no claimed property select? (a labelled obligation [Cnn.x] that property Cnn does not
		// select is a contract that is written but never checked by the property it was written for)
		all, _, _ := rc.translateAll(nil)
		seen := map[string]bool{}
		re := regexp.MustCompile(`\[(C[0-9][0-9])\.`)
		for _, o := range all {
			if seen[o.Name] || o.Kind == "canary" || o.Kind == "canary2" {
				continue
			}
			seen[o.Name] = true
			var by []string
			for prop, pats := range w.C.Props {
				for _, p := range pats {
					if globMatch(p, o.Name) {
						by = append(by, prop)
						break
					}
				}
			}
			sort.Strings(by)
			if m := re.FindStringSubmatch(o.Name); m != nil {
				ok := false
				for _, b := range by {
					if b == m[1] {
						ok = true
					}
				}
				if !ok {
					fmt.Printf("LABEL-NOT-SELECTED %s (selected by %v)\n", o.Name, by)
				}
			} else if len(by) == 0 {
				fmt.Printf("unselected %s\n", o.Name)
			}
		}
	default:
		fmt.Println("unknown command", cmd)
		code = 2
	}
	os.RemoveAll(dir)
	os.Exit(code)
}

// translateAll builds obligations for every function under contract and, in lock-domain
// packages, for every function (lock sweep).
func (rc *runCtx) translateAll(only func(short string) bool) ([]*Obligation, []*FnCtx, []string) {
	w := rc.w
	var keys []string
	for k := range w.Funcs {
		keys = append(keys, k)
	}
	sort.Strings(keys)
	var obls []*Obligation
	var ctxs []*FnCtx
	var problems []string
	lemmaSeen := map[string]bool{}
	for _, k := range keys {
		fn := w.Funcs[k]
		spec := w.C.Funcs[k]
		pkgPath := fnPkg(fn).Pkg.Path()
		sweep := w.inLockPkg(pkgPath)
		if spec == nil && !sweep {
			continue
		}
		if spec != nil && spec.Trusted && !sweep && len(spec.Ats) == 0 && len(spec.Loops) == 0 {
			continue // assumed contract without body obligations
		}
		if len(fn.Blocks) == 0 || fn.Synthetic != "" {
			continue
		}
		tr := NewFnCtx(w, fn, spec)
		if only != nil && !only(tr.Short) {
			continue
		}
		tr.lockSweep = sweep
		if err := tr.Translate(); err != nil {
			problems = append(problems, err.Error())
			obls = append(obls, &Obligation{Name: tr.Short + "/translation", Fn: tr.Short, Kind: "translation", Goal: "false", Src: err.Error(), Ctx: tr})
			ctxs = append(ctxs, tr)
			continue
		}
		for _, e := range tr.specErrors {
			problems = append(problems, tr.Short+": "+e)
		}
		obls = append(obls, tr.obls...)
		ctxs = append(ctxs, tr)
		for _, lv := range tr.lemmaVCs {
			if lemmaSeen[lv.name] {
				continue
			}
			lemmaSeen[lv.name] = true
			obls = append(obls, lemmaObligation(w, lv))
		}
	}
	// writers declarations: syntactic scan of every store instruction of the package
	for _, ws := range w.C.Writers {
		short := shortPkg(ws.Pkg, w.ModPath)
		if only != nil && !only(short+".writers") {
			continue
		}
		tr := &FnCtx{W: w, Short: short}
		if p := w.Pkgs[ws.Pkg]; p != nil {
			tr.Pkg = p.Types
		}
		tr.comps = map[string]string{}
		tr.decl = map[string]bool{}
		var want []Comp
		func() {
			defer func() { recover() }()
			want = tr.resolveComps(ws.Field, tr.Pkg)
		}()
		wantSet := map[string]bool{}
		for _, c := range want {
			wantSet[c.Name] = true
		}
		allowed := map[string]bool{}
		for _, f := range ws.Funcs {
			allowed[f] = true
		}
		var offenders []string
		for _, k := range keys {
			if !strings.HasPrefix(k, ws.Pkg+"::") {
				continue
			}
			fn := w.Funcs[k]
			name := strings.TrimPrefix(k, ws.Pkg+"::")
			for _, b := range fn.Blocks {
				for _, in := range b.Instrs {
					st, ok := in.(*ssa.Store)
					if !ok {
						continue
					}
					cs, _ := tr.storeTargets(st.Addr)
					for _, c := range cs {
						if wantSet[c.Name] && !allowed[name] {
							offenders = append(offenders, name+" at "+w.Prog.Fset.Position(st.Pos()).String())
						}
					}
				}
			}
		}
		goal := "true"
		src := "only " + strings.Join(ws.Funcs, ", ") + " store to " + ws.Field + " (syntactic scan of all store instructions of the package)"
		if len(want) == 0 {
			goal = "false"
			src += "; field not found"
		}
		if len(offenders) > 0 {
			goal = "false"
			src += "; OFFENDERS: " + strings.Join(offenders, "; ")
		}
		obls = append(obls, &Obligation{Name: short + "/writers[" + ws.Field + "]", Fn: short + ".writers", Kind: "scan", Goal: goal, Src: src, Ctx: tr})
	}
	// interference model (rely declarations): the variable cells of a goroutine are assumed not to be written
	// by other goroutines; scan: no closure that can run on another goroutine stores to a captured variable
	relyPkgs := map[string]bool{}
	for _, m := range w.C.Relies {
		relyPkgs[m.Pkg] = true
	}
	var rpk []string
	for p := range relyPkgs {
		rpk = append(rpk, p)
	}
	sort.Strings(rpk)
	for _, pkgPath := range rpk {
		short := shortPkg(pkgPath, w.ModPath)
		if only != nil && !only(short+".interference") {
			continue
		}
		var offenders []string
		n := 0
		for _, k := range keys {
			if !strings.HasPrefix(k, pkgPath+"::") {
				continue
			}
			fn := w.Funcs[k]
			if fn.Parent() == nil {
				continue
			}
			sameGoroutine := true
			for _, pb := range fn.Parent().Blocks {
				for _, in := range pb.Instrs {
					mc, ok := in.(*ssa.MakeClosure)
					if !ok || mc.Fn != fn {
						continue
					}
					for _, ref := range *mc.Referrers() {
						switch r := ref.(type) {
						case *ssa.Defer:
							if r.Call.Value != mc {
								sameGoroutine = false
							}
						case *ssa.Call:
							if r.Call.Value != mc {
								sameGoroutine = false
							}
						case *ssa.DebugRef:
						default:
							sameGoroutine = false
						}
					}
				}
			}
			if sameGoroutine {
				continue
			}
			n++
			for _, b := range fn.Blocks {
				for _, in := range b.Instrs {
					if st, ok := in.(*ssa.Store); ok {
						if _, isFV := st.Addr.(*ssa.FreeVar); isFV {
							offenders = append(offenders, strings.TrimPrefix(k, pkgPath+"::")+" at "+w.Prog.Fset.Position(st.Pos()).String())
						}
					}
				}
			}
		}
		goal := "true"
		src := fmt.Sprintf("no closure that may run on another goroutine (%d such closures: go statements, timers, stored function values) assigns a captured variable", n)
		if len(offenders) > 0 {
			goal = "false"
			src += "; OFFENDERS: " + strings.Join(offenders, "; ")
		}
		obls = append(obls, &Obligation{Name: short + "/interference[captured]", Fn: short + ".interference", Kind: "scan", Goal: goal, Src: src, Ctx: &FnCtx{W: w, Short: short}})
	}
	// globalinit declarations: the package initialiser stores one of the allowed globals into the variable
	for _, gi := range w.C.GlobalInits {
		short := shortPkg(gi.Pkg, w.ModPath)
		if only != nil && !only(short+".globalinit") {
			continue
		}
		found := ""
		if sp := w.SSAPkgs[gi.Pkg]; sp != nil {
			if initFn := sp.Func("init"); initFn != nil {
				for _, b := range initFn.Blocks {
					for _, in := range b.Instrs {
						st, ok := in.(*ssa.Store)
						if !ok {
							continue
						}
						g, ok := st.Addr.(*ssa.Global)
						if !ok || g.Name() != gi.Field {
							continue
						}
						found = "<not a plain global>"
						if u, ok := st.Val.(*ssa.UnOp); ok {
							if src, ok := u.X.(*ssa.Global); ok {
								found = src.Pkg.Pkg.Name() + "." + src.Name()
							}
						}
					}
				}
			}
		}
		goal := "false"
		for _, a := range gi.Funcs {
			if a == found {
				goal = "true"
			}
		}
		obls = append(obls, &Obligation{Name: short + "/globalinit[" + gi.Field + "]", Fn: short + ".globalinit", Kind: "scan", Goal: goal,
			Src: "package variable " + gi.Field + " is initialised from one of " + strings.Join(gi.Funcs, ", ") + " (found: " + found + ")", Ctx: &FnCtx{W: w, Short: short}})
	}
	// contracts attached to nothing
	var ckeys []string
	for k := range w.C.Funcs {
		ckeys = append(ckeys, k)
	}
	sort.Strings(ckeys)
	for _, k := range ckeys {
		spec := w.C.Funcs[k]
		if strings.HasPrefix(k, "iface::") {
			continue
		}
		if _, ok := w.Funcs[k]; !ok {
			short := shortPkg(spec.Pkg, w.ModPath) + "." + spec.Name
			if only != nil && !only(short) {
				continue
			}
			problems = append(problems, fmt.Sprintf("contract %s (%s) is attached to no function", spec.Name, spec.Line))
			obls = append(obls, &Obligation{Name: short + "/attached", Fn: short, Kind: "attached", Goal: "false", Src: "the function under contract exists", Ctx: &FnCtx{W: w, Short: short}})
		}
	}
	return obls, ctxs, problems
}

var nonFile = regexp.MustCompile(`[^A-Za-z0-9_.\-]+`)

func fileSafe(s string) string { return nonFile.ReplaceAllString(s, "_") }

type knownFinding struct {
	Kind, Prop, Obl, Text string
}

func loadKnown(verif string) []knownFinding {
	data, err := os.ReadFile(filepath.Join(verif, "known_findings.txt"))
	if err != nil {
		return nil
	}
	var out []knownFinding
	for _, l := range strings.Split(string(data), "\n") {
		l = strings.TrimSpace(l)
		if l == "" || strings.HasPrefix(l, "#") {
			continue
		}
		var kf knownFinding
		if strings.HasPrefix(l, "known:") {
			kf.Kind = "known"
			l = strings.TrimSpace(strings.TrimPrefix(l, "known:"))
		} else if strings.HasPrefix(l, "fixed:") {
			kf.Kind = "fixed"
			l = strings.TrimSpace(strings.TrimPrefix(l, "fixed:"))
		} else {
			continue
		}
		for _, f := range strings.Fields(l) {
			if strings.HasPrefix(f, "property=") {
				kf.Prop = strings.TrimPrefix(f, "property=")
			}
			if strings.HasPrefix(f, "obligation=") {
				kf.Obl = strings.TrimPrefix(f, "obligation=")
			}
		}
		kf.Text = l
		out = append(out, kf)
	}
	return out
}

func (rc *runCtx) failHard(prop, what, msg string, wall float64) {
	dir := filepath.Join(rc.verif, "replays", prop)
	os.MkdirAll(dir, 0755)
	path := filepath.Join(dir, what+".json")
	b, _ := json.MarshalIndent(map[string]interface{}{"property": prop, "obligation": what, "reason": msg}, "", " ")
	os.WriteFile(path, b, 0644)
	fmt.Printf("VIOLATION property=%s replay=%s no-failing-input-found\n", prop, path)
	ev := map[string]interface{}{
		"property_id": prop, "tier": rc.tier, "seed": rc.seed, "level": "proof", "wall_s": wall, "violations": 1,
		"coverage": map[string]interface{}{"obligations": 1, "discharged": 0, "checker_cmd": "govc check", "trusted_base": []string{},
			"evaluations": 1, "distinct_nontrivial": 0, "explanation": "the tree could not be loaded: " + msg},
	}
	os.MkdirAll(filepath.Join(rc.verif, "evidence"), 0755)
	b, _ = json.MarshalIndent(ev, "", " ")
	os.WriteFile(filepath.Join(rc.verif, "evidence", prop+".json"), b, 0644)
}

func (rc *runCtx) check(prop string, t0 time.Time) int {
	w := rc.w
	pats := w.C.Props[prop]
	if len(pats) == 0 {
		fmt.Fprintf(os.Stderr, "govc: no 'property %s:' line in the contract files\n", prop)
		rc.failHard(prop, "no-contracts", "no obligations are mapped to this property (contract files missing?)", time.Since(t0).Seconds())
		return 1
	}
	tGen := time.Now()
	all, ctxs, problems := rc.translateAll(nil)
	genS := time.Since(tGen).Seconds()
	match := func(name string) bool {
		for _, p := range pats {
			if globMatch(p, name) {
				return true
			}
		}
		return false
	}
	var sel []*Obligation
	fnHas := map[string]bool{}
	for _, o := range all {
		if o.Kind != "canary" && o.Kind != "canary2" && match(o.Name) {
			sel = append(sel, o)
			fnHas[o.Fn] = true
		}
	}
	// contract glue: an obligation that no property's patterns select (frames, call preconditions, safety, unlabelled
	// postconditions) belongs to every property that uses the function it was generated for — the modular argument of
	// that property assumes the function's contract, so its whole contract has to hold
	byAny := func(name string) bool {
		for _, ps := range w.C.Props {
			for _, p := range ps {
				if globMatch(p, name) {
					return true
				}
			}
		}
		return false
	}
	glue := 0
	for _, o := range all {
		if o.Kind != "canary" && o.Kind != "canary2" && fnHas[o.Fn] && !match(o.Name) && !byAny(o.Name) {
			sel = append(sel, o)
			glue++
		}
	}
	_ = glue
	for _, o := range all {
		if o.Kind == "canary" && fnHas[o.Fn] {
			sel = append(sel, o)
		}
		if o.Kind == "canary2" && fnHas[o.Fn] && rc.tier == "thorough" {
			sel = append(sel, o) // per-call-site vacuity canaries: thorough tier only (two extra queries per call)
		}
	}
	// every pattern must match something (a contract clause that no longer attaches is a lost proof)
	var unattached []string
	for _, p := range pats {
		found := false
		for _, o := range all {
			if globMatch(p, o.Name) {
				found = true
				break
			}
		}
		if !found {
			unattached = append(unattached, p)
		}
	}
	tSolve := time.Now()
	SolveAll(sel, rc.scratch, rc.timeoutS, rc.tier == "thorough", rc.workers)
	solveWall := time.Since(tSolve).Seconds()

	known := loadKnown(rc.verif)
	// group by name
	type group struct {
		name string
		obls []*Obligation
	}
	gm := map[string]*group{}
	var gorder []string
	for _, o := range sel {
		g := gm[o.Name]
		if g == nil {
			g = &group{name: o.Name}
			gm[o.Name] = g
			gorder = append(gorder, o.Name)
		}
		g.obls = append(g.obls, o)
	}
	sort.Strings(gorder)
	repDir := filepath.Join(rc.verif, "replays", prop)
	if os.Getenv("VERIF_SELFTEST_CHILD") != "" {
		repDir = filepath.Join(rc.scratch, "replays", prop)
	}
	os.RemoveAll(repDir)
	violations := 0
	discharged := 0
	knownHit := []string{}
	_ = knownHit
	var oblRecords []map[string]interface{}
	var solverMs int64
	bySolver := map[string]int{}
	var samples []interface{}
	canaries := 0
	for _, name := range gorder {
		g := gm[name]
		ok := true
		var worst *Obligation
		var ms, maxMs int64
		var solver string
		bytes := 0
		for _, o := range g.obls {
			ms += o.Result.Ms
			if o.Result.Ms > maxMs {
				maxMs = o.Result.Ms
			}
			bytes += o.Result.Bytes
			solver = o.Result.Solver
			if !o.ok() {
				ok = false
				if worst == nil {
					worst = o
				}
			}
		}
		solverMs += ms
		o0 := g.obls[0]
		rec := map[string]interface{}{"name": name, "kind": o0.Kind, "solver": solver, "ms": ms, "max_query_ms": maxMs, "queries": len(g.obls), "vc_bytes": bytes, "clause": o0.Src}
		if o0.Kind == "canary" || o0.Kind == "canary2" {
			canaries += len(g.obls)
		}
		if ok {
			discharged++
			bySolver[solver]++
			rec["status"] = "discharged"
			fmt.Printf("ok    %-90s %-9s %5d ms\n", name, solver, ms)
			if len(samples) < 3 && o0.Kind != "canary" && o0.Kind != "canary2" && o0.Goal != "true" {
				g := o0.Goal
				if len(g) > 1500 {
					g = g[:1500] + " ..."
				}
				samples = append(samples, map[string]interface{}{"obligation": name, "clause": o0.Src, "goal_smt": g, "context_commands": o0.Prefix})
			}
		} else {
			status := worst.Result.Status
			rec["status"] = "FAILED:" + status
			// known finding?
			isKnown := false
			for _, kf := range known {
				if kf.Kind == "known" && kf.Prop == prop && kf.Obl == name {
					isKnown = true
					fmt.Printf("KNOWN-FINDING: property=%s %s\n", prop, kf.Text)
					knownHit = append(knownHit, kf.Text)
				}
			}
			os.MkdirAll(repDir, 0755)
			base := filepath.Join(repDir, fileSafe(name))
			if worst.Result.Query != "" {
				if q, err := os.ReadFile(worst.Result.Query); err == nil {
					os.WriteFile(base+".smt2", q, 0644)
				}
			}
			out := worst.Result.Output
			if len(out) > 4000 {
				out = out[:4000]
			}
			reason := status
			if worst.Kind == "canary" || worst.Kind == "canary2" {
				reason = "vacuity: the assumptions of this function are contradictory (solver proved that no return is reachable)"
			}
			rp := map[string]interface{}{"property": prop, "obligation": name, "kind": worst.Kind, "clause": worst.Src, "solver_status": reason,
				"solvers_tried": worst.Result.Tried, "solver_output": out, "query": base + ".smt2", "sites": worst.Cases,
				"replay": "no-failing-input-found"}
			replayed := false
			if !isKnown {
				replayed = rc.tryReplay(worst, rp, base)
			}
			b, _ := json.MarshalIndent(rp, "", " ")
			os.WriteFile(base+".json", b, 0644)
			fmt.Printf("FAIL  %-90s %s %v\n", name, status, worst.Result.Tried)
			if !isKnown {
				violations++
				suffix := " no-failing-input-found"
				if replayed {
					suffix = ""
				}
				fmt.Printf("VIOLATION property=%s replay=%s%s\n", prop, base+".json", suffix)
			}
		}
		oblRecords = append(oblRecords, rec)
	}
	for _, p := range unattached {
		violations++
		os.MkdirAll(repDir, 0755)
		base := filepath.Join(repDir, "unattached_"+fileSafe(p))
		b, _ := json.MarshalIndent(map[string]interface{}{"property": prop, "obligation": p, "reason": "obligation-not-generated: no function/clause in the current tree produces an obligation matching this pattern (function renamed or removed?)"}, "", " ")
		os.WriteFile(base+".json", b, 0644)
		fmt.Printf("FAIL  %-90s obligation-not-generated\n", p)
		fmt.Printf("VIOLATION property=%s replay=%s no-failing-input-found\n", prop, base+".json")
	}
	for _, p := range problems {
		fmt.Printf("note  %s\n", p)
	}
	// bounded stand-ins (not proofs)
	bounded := rc.runBounded(prop)
	for _, br := range bounded {
		if br.OK {
			fmt.Printf("ok    bounded/%-82s %d cases, %.1fs (BOUNDED, not a proof: %s)\n", br.Name, br.Cases, br.WallS, br.Bound)
			continue
		}
		violations++
		os.MkdirAll(repDir, 0755)
		base := filepath.Join(repDir, "bounded_"+fileSafe(br.Name))
		b, _ := json.MarshalIndent(map[string]interface{}{"property": prop, "obligation": "bounded/" + br.Name, "kind": "bounded stand-in", "bound": br.Bound,
			"failing_inputs": br.Failures, "replay": br.Cmd, "note": "adj is the adjacency matrix in binary, bit i*n+j set = task i depends on task j, tasks named a,b,c,..."}, "", " ")
		os.WriteFile(base+".json", b, 0644)
		fmt.Printf("FAIL  bounded/%s: %v\n", br.Name, br.Failures)
		fmt.Printf("VIOLATION property=%s replay=%s\n", prop, base+".json")
	}
	// evidence
	var fr []funcReport
	externUsed := map[string]bool{}
	assumes := map[string]bool{}
	dropped := map[string]bool{}
	for _, tr := range ctxs {
		if !fnHas[tr.Short] {
			continue
		}
		n := 0
		for _, o := range sel {
			if o.Fn == tr.Short {
				n++
			}
		}
		r := funcReport{Name: tr.Short, Obligations: n}
		for k := range tr.notes {
			r.Notes = append(r.Notes, k)
			dropped[k] = true
		}
		sort.Strings(r.Notes)
		r.Unsupported = tr.unsupported
		fr = append(fr, r)
		for k := range tr.externUsed {
			externUsed[k] = true
		}
		for _, a := range tr.assumesUsed {
			assumes[a] = true
		}
		for l := range tr.lemmasUsed {
			if lm := w.C.Lemmas[l]; lm != nil && lm.Trusted {
				assumes["trusted lemma "+l] = true
			}
		}
		for _, cb := range tr.callbackCalls {
			assumes[tr.Short+": callback "+cb+" assumed not to modify runner state"] = true
		}
	}
	trusted := []string{
		"govc (this VC generator): SSA->SMT translation, memory model, frame computation, contract parser",
		"go/packages + go/ssa (x/tools v0.29.0) build the program the compiler compiles (tag verif adds comment-only files)",
		"SMT solvers z3 4.8.12 / z3 5.1.0 / cvc5 1.0 (an unsat answer is trusted; every z3 process runs with smt.mbqi=false, so refutations are built from E-matching instances only)",
		"machine integers treated as mathematical integers",
		"strings, UUIDs and times are opaque identifiers (equality, and order where an extern contract says so)",
		"partial correctness only (termination not proved)",
	}
	for k := range externUsed {
		trusted = append(trusted, "extern: "+k)
	}
	for k := range assumes {
		trusted = append(trusted, "assumed: "+k)
	}
	for _, t := range w.C.Trusted {
		trusted = append(trusted, "contract-file: "+strings.TrimPrefix(t, rc.w.Repo+"/"))
	}
	sort.Strings(trusted[6:])
	assumptions := []string{}
	assumptions = append(assumptions, commonAssumptions...)
	assumptions = append(assumptions, propAssumptions[prop]...)
	for k := range dropped {
		assumptions = append(assumptions, "abstraction: "+k)
	}
	sort.Strings(assumptions)
	total := len(gorder) + len(unattached)
	if samples == nil {
		samples = []interface{}{}
	}
	cov := map[string]interface{}{
		"obligations": total, "discharged": discharged, "checker_cmd": fmt.Sprintf("bin/govc check --property %s --tier %s --repo %s", prop, rc.tier, w.Repo),
		"trusted_base": trusted, "functions_under_contract": fr, "obligation_list": oblRecords, "solver_time_s": float64(solverMs) / 1000.0,
		"solve_wall_s": solveWall, "vcgen_s": genS, "load_s": w.LoadS, "discharged_by_solver": bySolver, "vacuity_canaries": canaries,
		"known_findings_hit": knownHit, "samples": samples, "per_obligation_timeout_s": rc.timeoutS,
		"integers": "mathematical (SMT Int); machine width not modelled", "contract_files": relFiles(w.C.Files, w.Repo),
		"obligation_patterns": pats,
	}
	if len(bounded) > 0 {
		cov["bounded"] = bounded
	}
	if rc.tier == "thorough" {
		st := rc.selftest(prop)
		caught := 0
		for _, r := range st {
			if r.Caught {
				caught++
				fmt.Printf("ok    selftest: seeded change %s is caught (%s)\n", r.Seed, strings.Join(r.Failing, " "))
			} else {
				fmt.Printf("WEAK  selftest: seeded change %s is NOT caught by this check %s\n", r.Seed, r.Note)
			}
		}
		cov["must_fail_corpus"] = map[string]interface{}{"seeded_changes": len(st), "caught": caught, "results": st}
	}
	ev := map[string]interface{}{"property_id": prop, "tier": rc.tier, "seed": rc.seed, "level": "proof", "coverage": cov,
		"assumptions": assumptions, "wall_s": time.Since(t0).Seconds(), "violations": violations}
	if os.Getenv("VERIF_NOEVIDENCE") == "" {
		os.MkdirAll(filepath.Join(rc.verif, "evidence"), 0755)
		b, _ := json.MarshalIndent(ev, "", " ")
		os.WriteFile(filepath.Join(rc.verif, "evidence", prop+".json"), b, 0644)
	}
	fmt.Printf("%s: %d obligations, %d discharged, %d violations, %.1fs\n", prop, total, discharged, violations, time.Since(t0).Seconds())
	if violations > 0 {
		return 1
	}
	return 0
}

func relFiles(fs []string, root string) []string {
	var out []string
	for _, f := range fs {
		out = append(out, strings.TrimPrefix(f, root+"/"))
	}
	return out
}

// propAssumptions: paper arguments and stated gaps per property (DESIGN.md sections 5, 6, 8).
var commonAssumptions = []string{
	"B1: mx serialises all critical sections, so the monitor invariant RI proved at every unlock holds whenever the lock is free, for every history and interleaving; needs the C13 lock-discipline obligations. Interference is modelled: at every re-acquisition of the lock and around every call of a lock-taking callee all shared state is havocked and only RI and the rely conditions (proved for every critical section as <fn>/guarantee[..]) are assumed; that the rely conditions are transitive, and that an entry point reads nothing shared before its first acquisition, are paper arguments",
	"facts carried by an entry point across its own lock acquisition ('assumes' clauses) are stable predicates (Start once set stays set, T)",
	"no function under contract inserts new keys into a map while ranging over it",
	"callbacks and injected functions (process, createTaskRunner) do not modify runner state",
}

var propAssumptions = map[string][]string{
	"C01": {"B2 (paper argument): a limit is a guard on the transitions that increase the population; a changed limit governs later transitions", "B3 (paper argument): task code runs only inside Scheduler.Schedule, which joins its stage goroutines before returning", "taskctl.Runner.Run returns only when the task's processes are done"},
	"C03": {"liveness step (paper argument): fair timers and terminating tasks turn 'progress after every unblocking event' into 'eventually starts'"},
	"C04": {"the spawned cancel goroutine runs and runner.Cancel stops the processes (C20 territory)", "a cancel acknowledged after the last task finished but before JobCompleted is not covered"},
	"C05": {"B2 (paper argument) for the bound 'waiting <= queue_limit'"},
	"C07": {"time.AfterFunc calls its function once, not before the delay, and not after a successful Stop (StartDelayedJob[fired]); time is a monotone ghost clock behind time.Now/time.Since, wall-clock adjustments are not modelled", "StartDelayedJob is only called from the timer callback of the job it names"},
	"C10": {"jsoniter Encode/Decode round trip (codec) is assumed, not proved", "persisted data carries pairwise distinct job ids"},
	"C11": {"the persist loop turns a request into a save within its interval (select + Sleep, read not verified)", "sync.WaitGroup: Wait returns after all Done calls"},
	"C12": {"sort.Sort orders by Less (trusted postcondition of (pipelineJobBy).Sort; bounded stand-in c12_sort)", "os.RemoveAll(path) returning nil means nothing is left at path; the interface-level ghost 'logs removed' of OutputStore.Remove is the abstraction of FileOutputStore.Remove (whose own contract is proved)", "every real UUID is recovered from its string form (idRoundTrips)"},
	"C13": {"Go memory model: sync.RWMutex gives happens-before", "the runner is used as a singleton per mutex (ghost lock state is per goroutine, not per runner object)", "taskctl.Scheduler/TaskRunner internals and objects handed out to callers (Variables, Env maps) are outside the claim"},
	"C15": {"'quiescent moment' is 'lock free' (B1)", "time.Now is monotone (ghost clock); jobs loaded from the store carry whatever time stamps the file has and are excluded from the ordering clause"},
	"C16": {"map iteration order in buildJobTasks is arbitrary (order of the copied tasks is fixed later by sortTasksByDependencies: bounded stand-in)"},
}

func (rc *runCtx) dump(fnName, oblPat string) int {
	all, ctxs, problems := rc.translateAll(func(short string) bool { return fnName == "" || strings.Contains(short, fnName) })
	for _, p := range problems {
		fmt.Println("problem:", p)
	}
	for _, tr := range ctxs {
		fmt.Printf("== %s: %d commands, %d obligations\n", tr.Short, len(tr.cmds), len(tr.obls))
		for k := range tr.notes {
			fmt.Println("   note:", k)
		}
	}
	var sel []*Obligation
	for _, o := range all {
		if oblPat == "" || globMatch(oblPat, o.Name) {
			sel = append(sel, o)
		}
	}
	if rc.split {
		var sp []*Obligation
		for _, o := range sel {
			parts := splitAnd(o.Goal)
			for i, g := range parts {
				c := *o
				c.Goal = g
				c.Name = fmt.Sprintf("%s{%d}", o.Name, i)
				sp = append(sp, &c)
			}
		}
		sel = sp
	}
	SolveAll(sel, rc.scratch, rc.timeoutS, false, rc.workers)
	code := 0
	for i, o := range sel {
		st := "ok  "
		if !o.ok() {
			st = "FAIL"
			code = 1
			keep := filepath.Join(os.TempDir(), fmt.Sprintf("govc-fail-%d.smt2", i))
			os.WriteFile(keep, []byte(o.query(true)), 0644)
			fmt.Printf("%s %-80s %s %v %dms -> %s\n", st, o.Name, o.Result.Status, o.Result.Tried, o.Result.Ms, keep)
			continue
		}
		if os.Getenv("VERIF_KEEPQ") != "" {
			keep := filepath.Join(os.TempDir(), fmt.Sprintf("govc-q-%d.smt2", i))
			os.WriteFile(keep, []byte(o.query(false)), 0644)
			fmt.Printf("%s %-80s %s %s %dms -> %s\n", st, o.Name, o.Result.Status, o.Result.Solver, o.Result.Ms, keep)
			continue
		}
		fmt.Printf("%s %-80s %s %dms\n", st, o.Name, o.Result.Status, o.Result.Ms)
	}
	return code
}

var _ = ssa.NaiveForm

// splitAnd splits "(and a b c)" into its top-level conjuncts, recursively through "(=> g (and ...))".
func splitAnd(g string) []string {
	g = strings.TrimSpace(g)
	args := func(s string) []string {
		var out []string
		depth := 0
		start := -1
		inQ := false
		for i := 0; i < len(s); i++ {
			c := s[i]
			if c == '|' {
				inQ = !inQ
				if depth == 0 && inQ && start < 0 {
					start = i
				}
				if depth == 0 && !inQ {
					out = append(out, s[start:i+1])
					start = -1
				}
				continue
			}
			if inQ {
				continue
			}
			switch c {
			case '(':
				if depth == 0 {
					start = i
				}
				depth++
			case ')':
				depth--
				if depth == 0 {
					out = append(out, s[start:i+1])
					start = -1
				}
			case ' ':
			default:
				if depth == 0 && start < 0 {
					j := i
					for j < len(s) && s[j] != ' ' && s[j] != ')' {
						j++
					}
					out = append(out, s[i:j])
					i = j - 1
				}
			}
		}
		return out
	}
	if strings.HasPrefix(g, "(and ") {
		var out []string
		for _, a := range args(g[5 : len(g)-1]) {
			out = append(out, splitAnd(a)...)
		}
		return out
	}
	if strings.HasPrefix(g, "(=> ") {
		as := args(g[4 : len(g)-1])
		if len(as) == 2 {
			var out []string
			for _, c := range splitAnd(as[1]) {
				out = append(out, "(=> "+as[0]+" "+c+")")
			}
			return out
		}
	}
	if strings.HasPrefix(g, "(forall ") {
		// forall x. (A && B)  ==  (forall x. A) && (forall x. B)
		as := args(g[8 : len(g)-1])
		if len(as) == 2 && !strings.HasPrefix(as[1], "(! ") {
			parts := splitAnd(as[1])
			if len(parts) > 1 {
				var out []string
				for _, c := range parts {
					out = append(out, "(forall "+as[0]+" "+c+")")
				}
				return out
			}
		}
	}
	return []string{g}
}

// lemmaObligation: the count-frame lemma, proved by induction on n (base and step in one query: the
// induction hypothesis is the statement for n-1).
func lemmaObligation(w *World, lv lemmaVC) *Obligation {
	tr := &FnCtx{W: w, Short: "lemma"}
	if lv.custom != nil {
		tr.cmds = lv.custom
		return &Obligation{Name: lv.name, Fn: "lemma", Kind: "lemma", Prefix: len(tr.cmds), Goal: lv.goal, Src: lv.src, Ctx: tr}
	}
	tr.cmds = append(tr.cmds, lv.rec)
	// constants
	decl := lv.decls
	decl = strings.ReplaceAll(decl, ") (", ")\n(")
	for _, d := range strings.Split(decl, "\n") {
		d = strings.TrimSpace(d)
		if d == "" {
			continue
		}
		d = strings.TrimPrefix(d, "(")
		k := strings.Index(d, " ")
		tr.cmds = append(tr.cmds, "(declare-const "+d[:k]+" "+strings.TrimSuffix(d[k+1:], ")")+")")
	}
	for _, c := range []string{"b1", "o1", "b2", "o2", "n"} {
		tr.cmds = append(tr.cmds, "(declare-const "+c+" Int)")
	}
	tr.cmds = append(tr.cmds, "(assert (>= n 0))")
	tr.cmds = append(tr.cmds, "(assert "+lv.pre+")")
	// induction hypothesis for n-1 (its precondition follows from the precondition for n)
	ih1 := "(" + lv.fname + " " + lv.a1 + " b1 o1 (- n 1))"
	ih2 := "(" + lv.fname + " " + lv.a2 + " b2 o2 (- n 1))"
	tr.cmds = append(tr.cmds, "(assert (=> (> n 0) (= "+ih1+" "+ih2+")))")
	return &Obligation{Name: lv.name, Fn: "lemma", Kind: "lemma", Prefix: len(tr.cmds), Goal: "(= " + lv.c1 + " " + lv.c2 + ")",
		Src: "count frame lemma by induction on n: heaps agreeing on the predicate over the first n elements give equal counts", Ctx: tr}
}
