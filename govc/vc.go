package main

// Discharging obligations with the SMT portfolio.

import (
	"bytes"
	"context"
	"fmt"
	"os"
	"os/exec"
	"path/filepath"
	"regexp"
	"strings"
	"sync"
	"time"
)

type SolveResult struct {
	Status  string // unsat | sat | unknown | timeout | error | trivial
	Solver  string
	Ms      int64
	Bytes   int
	Output  string
	Query   string // path of the query file (kept only for failures)
	Tried   []string
	Confirm int // number of additional solvers confirming unsat (thorough)
}

type solverSpec struct {
	name string
	args func(file string, timeoutS int) []string
}

// z3-new/ps1: z3 5.1 without auto configuration, case_split=0 and phase_selection=1 (decide literals true first).
// On the 17 slowest obligations of this code base (block-guarded queries with quantified frame reasoning over
// two appends) the default configuration needs 190 s and times out on 6 within 20 s; this one needs 5 s in
// total, for every random seed tried (0..7).
var solvers = []solverSpec{
	{"z3-new/ps1", func(f string, t int) []string {
		// E-matching only: every refutation is built from instances of the asserted quantifiers
		return []string{"z3-new", fmt.Sprintf("-T:%d", t), "auto_config=false", "smt.case_split=0", "smt.phase_selection=1", "smt.mbqi=false", f}
	}},
	{"z3-new/ps1s3", func(f string, t int) []string {
		return []string{"z3-new", fmt.Sprintf("-T:%d", t), "auto_config=false", "smt.case_split=0", "smt.phase_selection=1", "smt.mbqi=false", "smt.random_seed=3", f}
	}},
	{"z3-new", func(f string, t int) []string {
		return []string{"z3-new", fmt.Sprintf("-T:%d", t), "smt.mbqi=false", f}
	}},
	{"z3", func(f string, t int) []string { return []string{"z3", fmt.Sprintf("-T:%d", t), "smt.mbqi=false", f} }},
	{"cvc5", func(f string, t int) []string { return []string{"cvc5", fmt.Sprintf("--tlimit=%d", t*1000), f} }},
}

// lateSolvers join the race only for queries that are still undecided after a few seconds: the same
// solver with other random seeds (quantifier instantiation is sensitive to the seed; a second seed
// removes most of the instability of slow queries).
var lateSolvers = []solverSpec{
	{"z3-new/seed1", func(f string, t int) []string {
		return []string{"z3-new", fmt.Sprintf("-T:%d", t), "smt.random_seed=1", "smt.mbqi=false", f}
	}},
	{"z3-new/seed2", func(f string, t int) []string {
		return []string{"z3-new", fmt.Sprintf("-T:%d", t), "smt.random_seed=2", "smt.mbqi=false", f}
	}},
	{"z3/seed3", func(f string, t int) []string {
		return []string{"z3", fmt.Sprintf("-T:%d", t), "smt.random_seed=3", "smt.mbqi=false", f}
	}},
}

// a third wave for queries still undecided after 15 s
var lateSolvers2 = []solverSpec{
	{"z3-new/seed4", func(f string, t int) []string {
		return []string{"z3-new", fmt.Sprintf("-T:%d", t), "smt.random_seed=4", "smt.mbqi=false", f}
	}},
	{"z3-new/seed5", func(f string, t int) []string {
		return []string{"z3-new", fmt.Sprintf("-T:%d", t), "smt.random_seed=5", "smt.arith.random_initial_value=true", "smt.mbqi=false", f}
	}},
}

const firstAfter = 700 * time.Millisecond
const lateAfter = 3 * time.Second
const lateAfter2 = 8 * time.Second

func runSolver(ctx context.Context, s solverSpec, file string, timeoutS int) (string, string, int64) {
	ctx, cancel := context.WithTimeout(ctx, time.Duration(timeoutS+2)*time.Second)
	defer cancel()
	args := s.args(file, timeoutS)
	cmd := exec.CommandContext(ctx, args[0], args[1:]...)
	var out bytes.Buffer
	cmd.Stdout = &out
	cmd.Stderr = &out
	t0 := time.Now()
	err := cmd.Run()
	ms := time.Since(t0).Milliseconds()
	text := out.String()
	first := ""
	for _, l := range strings.Split(text, "\n") {
		l = strings.TrimSpace(l)
		if l == "" || strings.HasPrefix(l, "WARNING") {
			continue
		}
		first = l
		break
	}
	switch first {
	case "unsat", "sat", "unknown":
		return first, text, ms
	case "timeout":
		return "timeout", text, ms
	}
	if ctx.Err() != nil || strings.Contains(first, "interrupted by timeout") {
		return "timeout", text, ms
	}
	if err != nil {
		return "error", text, ms
	}
	return "error", text, ms
}

func (o *Obligation) query(withModel bool) string {
	return o.queryPrefix(withModel, o.Prefix)
}

var guardSym = regexp.MustCompile(`\|(reach_\d+|e_\d+_\d+)\|`)
var guardedAssert = regexp.MustCompile(`^\(assert \(=> \|(reach_\d+|e_\d+_\d+)\| `)
var guardDef = regexp.MustCompile(`^\(define-fun \|(reach_\d+|e_\d+_\d+)\| \(\) Bool `)

// guardIndex: per command, the block/edge guard it is conditioned on ("" = unconditional), and the
// definitions of the guards (which other guards each one mentions).
func (tr *FnCtx) guardIndex() {
	tr.guardMu.Lock()
	defer tr.guardMu.Unlock()
	if len(tr.cmdGuard) == len(tr.cmds) && tr.guardDeps != nil {
		return
	}
	tr.cmdGuard = make([]string, len(tr.cmds))
	tr.guardDeps = map[string][]string{}
	for i, c := range tr.cmds {
		if m := guardedAssert.FindStringSubmatch(c); m != nil {
			tr.cmdGuard[i] = m[1]
		} else if m := guardDef.FindStringSubmatch(c); m != nil {
			for _, d := range guardSym.FindAllStringSubmatch(c[len(m[0]):], -1) {
				tr.guardDeps[m[1]] = append(tr.guardDeps[m[1]], d[1])
			}
		}
	}
}

// relevant: the guards of the blocks and edges that lie on some path to the goal (cone of influence of the
// guard symbols the goal mentions). Assumptions conditioned on any other block cannot matter on those paths
// and are left out of the query; leaving out assumptions is always sound.
func (o *Obligation) relevant() map[string]bool {
	if os.Getenv("VERIF_NOPRUNE") != "" || o.Ctx == nil {
		return nil
	}
	roots := guardSym.FindAllStringSubmatch(o.Goal, -1)
	if len(roots) == 0 {
		return nil
	}
	o.Ctx.guardIndex()
	cone := map[string]bool{}
	var work []string
	for _, r := range roots {
		if !cone[r[1]] {
			cone[r[1]] = true
			work = append(work, r[1])
		}
	}
	for len(work) > 0 {
		g := work[len(work)-1]
		work = work[:len(work)-1]
		for _, d := range o.Ctx.guardDeps[g] {
			if !cone[d] {
				cone[d] = true
				work = append(work, d)
			}
		}
	}
	return cone
}

func (o *Obligation) queryPrefix(withModel bool, prefix int) string {
	var sb strings.Builder
	sb.WriteString(preamble)
	cone := o.relevant()
	for i, c := range o.Ctx.cmds[:prefix] {
		if cone != nil {
			if g := o.Ctx.cmdGuard[i]; g != "" && !cone[g] {
				continue
			}
		}
		sb.WriteString(c)
		sb.WriteString("\n")
	}
	sb.WriteString("(assert (not " + o.Goal + "))\n(check-sat)\n")
	if withModel {
		sb.WriteString("(get-model)\n")
	}
	return sb.String()
}

// Solve runs the portfolio on one obligation: all solvers race, the first definitive answer wins.
func Solve(o *Obligation, dir string, idx int, timeoutS int, thorough bool) *SolveResult {
	if o.Goal == "true" {
		return &SolveResult{Status: "trivial", Solver: "syntactic"}
	}
	if o.Goal == "false" && o.Kind != "canary" {
		return &SolveResult{Status: "sat", Solver: "syntactic"}
	}
	if o.Kind == "canary2" {
		// reachable before the call (not provably unreachable) but provably unreachable after assuming the callee's contract?
		fb := filepath.Join(dir, fmt.Sprintf("q%05db.smt2", idx))
		os.WriteFile(fb, []byte(o.queryPrefix(false, o.PrefixBefore)), 0644)
		stB, _, _ := runSolver(context.Background(), solvers[0], fb, timeoutS)
		if stB == "unsat" {
			return &SolveResult{Status: "dead-site", Solver: solvers[0].name}
		}
	}
	q := o.query(false)
	file := filepath.Join(dir, fmt.Sprintf("q%05d.smt2", idx))
	os.WriteFile(file, []byte(q), 0644)
	res := &SolveResult{Bytes: len(q), Query: file, Status: "unknown"}
	expectSat := o.Kind == "canary" || o.Kind == "canary2"
	t0 := time.Now()
	type r struct {
		st, out, name string
	}
	use := solvers
	if expectSat {
		use = solvers[:1]
	}
	ctx, cancel := context.WithCancel(context.Background())
	total := len(use)
	if !expectSat {
		total += len(lateSolvers) + len(lateSolvers2)
	}
	ch := make(chan r, total)
	for i, s := range use {
		go func(i int, s solverSpec) {
			if i > 0 {
				// most obligations are decided by the first configuration within a fraction of a second; the other
				// solvers join only for those that are not
				select {
				case <-ctx.Done():
					ch <- r{"skipped", "", s.name}
					return
				case <-time.After(firstAfter):
				}
			}
			st, out, _ := runSolver(ctx, s, file, timeoutS)
			ch <- r{st, out, s.name}
		}(i, s)
	}
	if !expectSat {
		for _, s := range lateSolvers {
			go func(s solverSpec) {
				select {
				case <-ctx.Done():
					ch <- r{"skipped", "", s.name}
					return
				case <-time.After(lateAfter):
				}
				rem := timeoutS - int(lateAfter/time.Second)
				if rem < 5 {
					rem = 5
				}
				st, out, _ := runSolver(ctx, s, file, rem)
				ch <- r{st, out, s.name}
			}(s)
		}
	}
	if !expectSat {
		for _, s := range lateSolvers2 {
			go func(s solverSpec) {
				select {
				case <-ctx.Done():
					ch <- r{"skipped", "", s.name}
					return
				case <-time.After(lateAfter2):
				}
				rem := timeoutS - int(lateAfter2/time.Second)
				if rem < 5 {
					rem = 5
				}
				st, out, _ := runSolver(ctx, s, file, rem)
				ch <- r{st, out, s.name}
			}(s)
		}
	}
	for i := 0; i < total; i++ {
		x := <-ch
		if x.st == "skipped" {
			continue
		}
		res.Tried = append(res.Tried, x.name+":"+x.st)
		if x.st == "unsat" || x.st == "sat" {
			res.Status, res.Solver, res.Output = x.st, x.name, x.out
			break
		}
		if res.Solver == "" || x.st == "unknown" {
			res.Status, res.Solver, res.Output = x.st, x.name, x.out
		}
	}
	cancel()
	if thorough && res.Status == "unsat" && !expectSat {
		for _, s := range solvers {
			if s.name == res.Solver {
				continue
			}
			ct := timeoutS
			if ct > 20 {
				ct = 20 // a confirmation is a bonus, not a proof step: do not wait long for the weaker solvers
			}
			st, _, _ := runSolver(context.Background(), s, file, ct)
			res.Tried = append(res.Tried, s.name+":"+st)
			if st == "unsat" {
				res.Confirm++
			}
			if st == "sat" {
				res.Status = "sat"
				res.Solver = s.name + " (contradicts " + res.Solver + ")"
			}
		}
	}
	res.Ms = time.Since(t0).Milliseconds()
	return res
}

func (o *Obligation) ok() bool {
	if o.Result == nil {
		return false
	}
	if o.Kind == "canary" || o.Kind == "canary2" {
		return o.Result.Status != "unsat" && o.Result.Status != "trivial" && o.Result.Status != "error"
	}
	return o.Result.Status == "unsat" || o.Result.Status == "trivial"
}

func SolveAll(obls []*Obligation, dir string, timeoutS int, thorough bool, workers int) {
	var wg sync.WaitGroup
	ch := make(chan int)
	for w := 0; w < workers; w++ {
		wg.Add(1)
		go func() {
			defer wg.Done()
			for i := range ch {
				t := timeoutS
				if obls[i].Kind == "canary" || obls[i].Kind == "canary2" {
					// a contradiction among the assumptions, if there is one, is found in milliseconds; the canary is
					// "not refuted within the limit"
					t = 1
					if thorough {
						t = 3
					}
				}
				obls[i].Result = Solve(obls[i], dir, i, t, thorough)
			}
		}()
	}
	for i := range obls {
		ch <- i
	}
	close(ch)
	wg.Wait()
}

// globMatch: '*' matches any sequence.
func globMatch(pat, s string) bool {
	parts := strings.Split(pat, "*")
	if len(parts) == 1 {
		return pat == s
	}
	if !strings.HasPrefix(s, parts[0]) {
		return false
	}
	s = s[len(parts[0]):]
	for i := 1; i < len(parts)-1; i++ {
		k := strings.Index(s, parts[i])
		if k < 0 {
			return false
		}
		s = s[k+len(parts[i]):]
	}
	return strings.HasSuffix(s, parts[len(parts)-1])
}
