package main

// Evaluation of contract expressions to SMT terms over a symbolic state.

import (
	"fmt"
	"go/constant"
	"go/types"
	"strings"
)

type Env struct {
	tr       *FnCtx
	vars     map[string]*Val
	st       *State
	old      *State
	pkg      *types.Package
	depth    int
	allocOld string
	assuming bool // the expression is being assumed (callee postcondition), not proved
}

var tBool = types.Typ[types.Bool]
var tInt = types.Typ[types.Int]

func (e *Env) with(vars map[string]*Val) *Env {
	n := *e
	n.vars = map[string]*Val{}
	for k, v := range e.vars {
		n.vars[k] = v
	}
	for k, v := range vars {
		n.vars[k] = v
	}
	return &n
}

func (e *Env) fail(format string, args ...interface{}) {
	panic(fmt.Sprintf("spec: "+format, args...))
}

func boolVal(t string) *Val { return &Val{T: tBool, A: []string{t}} }
func intVal(t string) *Val  { return &Val{T: tInt, A: []string{t}} }

func (e *Env) evalBool(x Expr) string {
	v := e.eval(x)
	if len(v.A) != 1 {
		e.fail("expected boolean, got %d atoms", len(v.A))
	}
	return v.A[0]
}

// parseType resolves a Go type expression in the scope of package pkg (including its imports).
func (w *World) parseType(pkg *types.Package, s string) (types.Type, error) {
	s = strings.TrimSpace(s)
	if s == "" || s == "int" {
		return tInt, nil
	}
	if s == "bool" {
		return tBool, nil
	}
	p := w.Pkgs[pkg.Path()]
	if p == nil {
		return nil, fmt.Errorf("package %s not loaded", pkg.Path())
	}
	var tv types.TypeAndValue
	var err error = fmt.Errorf("no syntax for package %s", pkg.Path())
	for _, f := range p.Syntax {
		pos := f.End() - 1
		if len(f.Decls) > 0 {
			pos = f.Decls[len(f.Decls)-1].End()
		}
		tv, err = types.Eval(p.Fset, pkg, pos, s)
		if err == nil {
			break
		}
	}
	if err != nil {
		return nil, err
	}
	if !tv.IsType() {
		return nil, fmt.Errorf("%s is not a type", s)
	}
	return tv.Type, nil
}

func (e *Env) importedPkg(name string) *types.Package {
	for _, imp := range e.pkg.Imports() {
		if imp.Name() == name {
			return imp
		}
	}
	// also allow the last path element of any loaded local package
	for path, p := range e.tr.W.Pkgs {
		if p.Types != nil && p.Types.Name() == name && e.tr.W.isLocalPkg(p.Types) {
			_ = path
			return p.Types
		}
	}
	return nil
}

func (e *Env) objVal(obj types.Object) *Val {
	switch o := obj.(type) {
	case *types.Const:
		v := &Val{T: o.Type()}
		switch o.Val().Kind() {
		case constant.Int:
			i, _ := constant.Int64Val(o.Val())
			v.A = []string{intLit(i)}
		case constant.Bool:
			if constant.BoolVal(o.Val()) {
				v.A = []string{"true"}
			} else {
				v.A = []string{"false"}
			}
		case constant.String:
			v.A = []string{e.tr.strConst(constant.StringVal(o.Val()))}
		default:
			e.fail("unsupported constant %s", o.Name())
		}
		return v
	case *types.Var:
		return &Val{T: o.Type(), A: e.tr.globalAtoms(o.Pkg().Path()+"."+o.Name(), o.Type())}
	case *types.Func:
		if f := e.tr.W.Prog.FuncValue(o); f != nil {
			return &Val{T: o.Type(), A: []string{e.tr.fnConst(f)}}
		}
	}
	e.fail("unsupported object %v", obj)
	return nil
}

// pure (non-emitting) memory reads
func (e *Env) loadCell(st *State, t types.Type, addr string) *Val {
	v := &Val{T: t}
	for _, c := range e.tr.W.cellComps(t) {
		v.A = append(v.A, sel(e.tr.cur(st, c), addr))
	}
	return v
}

func (e *Env) loadField(st *State, s types.Type, prefix string, ft types.Type, obj string) *Val {
	v := &Val{T: ft}
	for _, c := range e.tr.W.fieldComps(s, prefix, ft) {
		v.A = append(v.A, sel(e.tr.cur(st, c), obj))
	}
	return v
}

func (e *Env) mapGetPure(st *State, mt types.Type, m, k string) (*Val, string) {
	mu := mt.Underlying().(*types.Map)
	in := sel(sel(e.tr.cur(st, e.tr.W.mapDomComp(mt)), m), k)
	v := &Val{T: mu.Elem()}
	atoms := e.tr.W.flatten(mu.Elem())
	_ = atoms
	for _, c := range e.tr.W.mapValComps(mt) {
		v.A = append(v.A, sel(sel(e.tr.cur(st, c), m), k))
	}
	return v, in
}

// fieldPath finds field name (possibly promoted through embedding) in struct type s.
func fieldPath(s types.Type, name string) (string, types.Type, bool) {
	st, ok := s.Underlying().(*types.Struct)
	if !ok {
		return "", nil, false
	}
	for i := 0; i < st.NumFields(); i++ {
		f := st.Field(i)
		if f.Name() == name {
			return f.Name(), f.Type(), true
		}
	}
	for i := 0; i < st.NumFields(); i++ {
		f := st.Field(i)
		if f.Embedded() {
			if _, isStruct := f.Type().Underlying().(*types.Struct); isStruct {
				if p, t, ok := fieldPath(f.Type(), name); ok {
					return f.Name() + "." + p, t, true
				}
			}
		}
	}
	return "", nil, false
}

func (e *Env) selField(v *Val, name string) *Val {
	t := v.T
	if t == nil {
		e.fail("field %s of untyped value", name)
	}
	if v.Loc != nil && v.Loc.Kind == LField {
		// pointer to embedded struct field
		p, ft, ok := fieldPath(v.Loc.T, name)
		if !ok {
			e.fail("no field %s in %v", name, v.Loc.T)
		}
		if _, isStruct := structOf(ft); isStruct && !e.tr.W.isOpaqueNamed(ft) {
			l := *v.Loc
			l.Prefix = joinPath(l.Prefix, p)
			l.T = ft
			return &Val{T: types.NewPointer(ft), Loc: &l}
		}
		return e.loadField(e.st, v.Loc.S, joinPath(v.Loc.Prefix, p), ft, v.Loc.Obj)
	}
	if v.Loc != nil && v.Loc.Kind == LLocal {
		p, ft, ok := fieldPath(v.Loc.T, name)
		if !ok {
			e.fail("no field %s in %v", name, v.Loc.T)
		}
		l := *v.Loc
		l.Prefix = joinPath(l.Prefix, p)
		l.T = ft
		if _, isStruct := structOf(ft); isStruct && !e.tr.W.isOpaqueNamed(ft) {
			return &Val{T: types.NewPointer(ft), Loc: &l}
		}
		res := &Val{T: ft}
		for _, a := range e.tr.W.flatten(ft) {
			res.A = append(res.A, e.tr.cur(e.st, Comp{"L." + l.ID + "." + joinPath(l.Prefix, a.Path), a.Sort, false}))
		}
		return res
	}
	if pt, ok := t.Underlying().(*types.Pointer); ok {
		s := pt.Elem()
		p, ft, ok := fieldPath(s, name)
		if !ok {
			e.fail("no field %s in %v", name, s)
		}
		if _, isStruct := structOf(ft); isStruct && !e.tr.W.isOpaqueNamed(ft) {
			return &Val{T: types.NewPointer(ft), Loc: &Loc{Kind: LField, Obj: v.one(), S: s, Prefix: p, T: ft}}
		}
		return e.loadField(e.st, s, p, ft, v.one())
	}
	if _, ok := structOf(t); ok {
		p, ft, ok := fieldPath(t, name)
		if !ok {
			e.fail("no field %s in %v", name, t)
		}
		atoms := e.tr.W.flatten(t)
		sub := e.tr.W.flatten(ft)
		res := &Val{T: ft}
		for _, sa := range sub {
			want := joinPath(p, sa.Path)
			found := false
			for i, a := range atoms {
				if a.Path == want {
					res.A = append(res.A, v.A[i])
					found = true
					break
				}
			}
			if !found {
				e.fail("atom %s not found in %v", want, t)
			}
		}
		return res
	}
	e.fail("cannot select %s from %v", name, t)
	return nil
}

func (e *Env) eval(x Expr) *Val {
	switch n := x.(type) {
	case EInt:
		return intVal(n.V)
	case EBool:
		if n.V {
			return boolVal("true")
		}
		return boolVal("false")
	case EStr:
		return &Val{T: types.Typ[types.String], A: []string{e.tr.strConst(n.V)}}
	case ENil:
		return &Val{T: types.Typ[types.UntypedNil], A: []string{"0"}}
	case EOld:
		ne := *e
		ne.st = e.old
		return ne.eval(n.X)
	case EIdent:
		return e.ident(n.Name)
	case ESel:
		if id, ok := n.X.(EIdent); ok {
			if _, isVar := e.vars[id.Name]; !isVar {
				if e.pkg.Scope().Lookup(id.Name) == nil {
					if ip := e.importedPkg(id.Name); ip != nil {
						obj := ip.Scope().Lookup(n.F)
						if obj == nil {
							e.fail("%s.%s not found", id.Name, n.F)
						}
						return e.objVal(obj)
					}
				}
			}
		}
		return e.selField(e.eval(n.X), n.F)
	case EIdx:
		v := e.eval(n.X)
		i := e.eval(n.I)
		if v.T == nil { // ghost array
			return &Val{T: v.GhostElem, A: []string{sel(v.one(), i.A[0])}}
		}
		switch u := v.T.Underlying().(type) {
		case *types.Slice:
			addr := e.tr.at(v.A[0], v.A[1], i.one())
			if _, isStruct := structOf(u.Elem()); isStruct && !e.tr.W.isOpaqueNamed(u.Elem()) {
				return &Val{T: types.NewPointer(u.Elem()), A: []string{addr}}
			}
			return e.loadCell(e.st, u.Elem(), addr)
		case *types.Map:
			r, _ := e.mapGetPure(e.st, v.T, v.one(), i.one())
			return r
		}
		e.fail("cannot index %v", v.T)
	case ESlice:
		v := e.eval(n.X)
		if _, ok := v.T.Underlying().(*types.Slice); !ok {
			e.fail("cannot slice %v", v.T)
		}
		lo := "0"
		hi := v.A[2]
		if n.Lo != nil {
			lo = e.eval(n.Lo).one()
		}
		if n.Hi != nil {
			hi = e.eval(n.Hi).one()
		}
		return &Val{T: v.T, A: []string{v.A[0], add(v.A[1], lo), sub(hi, lo), sub(v.A[3], lo)}}
	case EUn:
		v := e.eval(n.X)
		switch n.Op {
		case "!":
			return boolVal(not(v.one()))
		case "-":
			return intVal("(- " + v.one() + ")")
		case "*":
			pt, ok := v.T.Underlying().(*types.Pointer)
			if !ok {
				e.fail("deref of non-pointer %v", v.T)
			}
			if _, isStruct := structOf(pt.Elem()); isStruct && !e.tr.W.isOpaqueNamed(pt.Elem()) {
				return v // struct pointers auto-deref on selection
			}
			return e.loadCell(e.st, pt.Elem(), v.one())
		}
	case EBin:
		return e.binary(n)
	case ECall:
		return e.call(n)
	case EQuant:
		return e.quant(n)
	}
	e.fail("unsupported expression %T", x)
	return nil
}

func (e *Env) ident(name string) *Val {
	if v, ok := e.vars[name]; ok {
		if v.AutoDeref && v.Loc == nil {
			if pt, ok := v.T.Underlying().(*types.Pointer); ok {
				if _, isStruct := structOf(pt.Elem()); isStruct && !e.tr.W.isOpaqueNamed(pt.Elem()) {
					return v // struct variables are used through field selection
				}
				return e.loadCell(e.st, pt.Elem(), v.one())
			}
		}
		if v.AutoDeref && v.Loc != nil && v.Loc.Kind == LLocal {
			if _, isStruct := structOf(v.Loc.T); !isStruct || e.tr.W.isOpaqueNamed(v.Loc.T) {
				res := &Val{T: v.Loc.T}
				for _, a := range e.tr.W.flatten(v.Loc.T) {
					res.A = append(res.A, e.tr.cur(e.st, Comp{"L." + v.Loc.ID + "." + joinPath(v.Loc.Prefix, a.Path), a.Sort, false}))
				}
				return res
			}
		}
		return v
	}
	if strings.HasPrefix(name, "$") {
		if g, ok := e.tr.W.C.Ghosts[name]; ok {
			if g.Array {
				et := types.Type(tInt)
				if g.Sort == "Bool" {
					et = tBool
				}
				return &Val{T: nil, GhostElem: et, A: []string{e.tr.cur(e.st, Comp{name, "(Array Int " + g.Sort + ")", false})}}
			}
			t := tInt
			if g.Sort == "Bool" {
				t = tBool
			}
			return &Val{T: t, A: []string{e.tr.cur(e.st, Comp{name, g.Sort, false})}}
		}
		switch name {
		case "$stopped":
			return &Val{T: nil, GhostElem: tBool, A: []string{e.tr.cur(e.st, compStopped)}}
		case "$armedDelay":
			return &Val{T: nil, GhostElem: tInt, A: []string{e.tr.cur(e.st, compArmedDelay)}}
		case "$armedAt":
			return &Val{T: nil, GhostElem: tInt, A: []string{e.tr.cur(e.st, compArmedAt)}}
		case "$armedFn":
			return &Val{T: nil, GhostElem: tInt, A: []string{e.tr.cur(e.st, compArmedFn)}}
		case "$logsRemoved":
			return &Val{T: nil, GhostElem: tBool, A: []string{e.tr.cur(e.st, compLogsRemoved)}}
		case "$pub":
			return &Val{T: nil, GhostElem: tBool, A: []string{e.tr.cur(e.st, compPub)}}
		case "$seen":
			e.fail("$seen is only available in invariants of map-range loops")
		case "$uuidFailed":
			return boolVal(e.tr.cur(e.st, compUUIDFailed))
		case "$wgWaited":
			return boolVal(e.tr.cur(e.st, compWgWaited))
		case "$wgTokens":
			return intVal(e.tr.cur(e.st, compWgTokens))
		case "$fsState":
			return &Val{T: nil, GhostElem: tInt, A: []string{e.tr.cur(e.st, compFsState)}}
		case "$fsData":
			return &Val{T: nil, GhostElem: tInt, A: []string{e.tr.cur(e.st, compFsData)}}
		case "$pathOpen":
			return &Val{T: nil, GhostElem: tBool, A: []string{e.tr.cur(e.st, compPathOpen)}}
		case "$decodedFrom":
			return &Val{T: nil, GhostElem: tInt, A: []string{e.tr.cur(e.st, compDecoded)}}
		case "$held":
			return intVal(e.tr.cur(e.st, compHeld))
		case "$alloc":
			return intVal(e.tr.cur(e.st, compAlloc))
		case "$clock":
			return intVal(e.tr.cur(e.st, compClock))
		}
		e.fail("unknown ghost %s", name)
	}
	if obj := e.pkg.Scope().Lookup(name); obj != nil {
		return e.objVal(obj)
	}
	switch name {
	case "W":
		return intVal("2")
	case "R":
		return intVal("1")
	}
	e.fail("unknown identifier %s (known: %v)", name, keysOf(e.vars))
	return nil
}

func keysOf(m map[string]*Val) []string {
	var ks []string
	for k := range m {
		ks = append(ks, k)
	}
	return ks
}

func (e *Env) binary(n EBin) *Val {
	switch n.Op {
	case "&&":
		return boolVal(and(e.evalBool(n.X), e.evalBool(n.Y)))
	case "||":
		return boolVal(or(e.evalBool(n.X), e.evalBool(n.Y)))
	case "==>":
		return boolVal(implies(e.evalBool(n.X), e.evalBool(n.Y)))
	case "<==>":
		return boolVal(eq(e.evalBool(n.X), e.evalBool(n.Y)))
	case "in":
		k := e.eval(n.X)
		m := e.eval(n.Y)
		if _, ok := m.T.Underlying().(*types.Map); !ok {
			e.fail("'in' needs a map, got %v", m.T)
		}
		_, in := e.mapGetPure(e.st, m.T, m.one(), k.one())
		return boolVal(in)
	}
	a := e.eval(n.X)
	b := e.eval(n.Y)
	switch n.Op {
	case "==", "!=":
		if a.Loc != nil || b.Loc != nil {
			e.fail("comparison of field addresses")
		}
		if len(a.A) != len(b.A) {
			e.fail("comparison of values with different shapes (%d vs %d atoms) in %v", len(a.A), len(b.A), n)
		}
		var parts []string
		for i := range a.A {
			parts = append(parts, eq(a.A[i], b.A[i]))
		}
		r := and(parts...)
		if n.Op == "!=" {
			r = not(r)
		}
		return boolVal(r)
	case "<", "<=", ">", ">=":
		if a.T != nil && isString(a.T) {
			switch n.Op {
			case "<":
				return boolVal("(str_lt " + a.one() + " " + b.one() + ")")
			case ">":
				return boolVal("(str_lt " + b.one() + " " + a.one() + ")")
			}
			e.fail("unsupported string comparison")
		}
		return boolVal("(" + n.Op + " " + a.one() + " " + b.one() + ")")
	case "+", "-", "*":
		t := a.T
		if t == nil {
			t = tInt
		}
		return &Val{T: t, A: []string{"(" + n.Op + " " + a.one() + " " + b.one() + ")"}}
	}
	e.fail("unsupported operator %s", n.Op)
	return nil
}

func (e *Env) quant(n EQuant) *Val {
	vars := map[string]*Val{}
	var decls []string
	for _, qv := range n.Vars {
		t, err := e.tr.W.parseType(e.pkg, qv.Type)
		if err != nil {
			e.fail("quantifier type %q: %v", qv.Type, err)
		}
		atoms := e.tr.W.flatten(t)
		if len(atoms) != 1 {
			e.fail("quantified variable %s must have a single-atom type", qv.Name)
		}
		e.tr.n++
		s := fmt.Sprintf("q_%s_%d", qv.Name, e.tr.n)
		vars[qv.Name] = &Val{T: t, A: []string{s}}
		decls = append(decls, "("+s+" "+atoms[0].Sort+")")
	}
	body := e.with(vars).evalBool(n.Body)
	q := "exists"
	if n.Forall {
		q = "forall"
	}
	return boolVal("(" + q + " (" + strings.Join(decls, " ") + ") " + body + ")")
}

func (e *Env) compPattern(x Expr) string {
	switch n := x.(type) {
	case EStr:
		return n.V
	case EIdent:
		return n.Name
	case ESel:
		return e.compPattern(n.X) + "." + n.F
	}
	e.fail("expected component pattern")
	return ""
}

func (e *Env) call(n ECall) *Val {
	arg := func(i int) *Val {
		if i >= len(n.Args) {
			e.fail("%s: missing argument %d", n.Fn, i)
		}
		return e.eval(n.Args[i])
	}
	switch n.Fn {
	case "len":
		v := arg(0)
		switch v.T.Underlying().(type) {
		case *types.Slice:
			return intVal(v.A[2])
		case *types.Map:
			return intVal("(card " + sel(e.tr.cur(e.st, e.tr.W.mapDomComp(v.T)), v.one()) + ")")
		case *types.Basic:
			return intVal("(str_len " + v.one() + ")")
		}
		e.fail("len of %v", v.T)
	case "domain": // key set of a map as a ghost set (for ghost snapshots: ghost $g := domain(m))
		v := arg(0)
		if _, ok := v.T.Underlying().(*types.Map); !ok {
			e.fail("domain needs a map")
		}
		return &Val{T: nil, GhostElem: tBool, A: []string{sel(e.tr.cur(e.st, e.tr.W.mapDomComp(v.T)), v.one())}}
	case "card": // cardinality of a ghost key set ($seen)
		v := arg(0)
		if v.T != nil {
			e.fail("card needs a ghost set")
		}
		return intVal("(card " + v.one() + ")")
	case "cap":
		return intVal(arg(0).A[3])
	case "base":
		return intVal(arg(0).A[0])
	case "off":
		return intVal(arg(0).A[1])
	case "ite":
		c := e.evalBool(n.Args[0])
		a := arg(1)
		b := arg(2)
		r := &Val{T: a.T}
		for i := range a.A {
			r.A = append(r.A, ite(c, a.A[i], b.A[i]))
		}
		return r
	case "has":
		m := arg(0)
		k := arg(1)
		_, in := e.mapGetPure(e.st, m.T, m.one(), k.one())
		return boolVal(in)
	case "fresh":
		v := arg(0)
		return boolVal("(>= " + v.A[0] + " " + e.allocOld + ")")
	case "extEq": // extensional equality generated from the Go types of the operands
		a := arg(0)
		b := arg(1)
		return boolVal(e.extEq(a, b, 0))
	case "wf": // slice header sanity
		v := arg(0)
		if len(v.A) != 4 {
			e.fail("wf needs a slice")
		}
		return boolVal(and("(<= 0 "+v.A[1]+")", "(<= 0 "+v.A[2]+")", "(<= "+v.A[2]+" "+v.A[3]+")", "(<= 0 "+v.A[0]+")", implies(eq(v.A[0], "0"), and(eq(v.A[2], "0"), eq(v.A[3], "0")))))
	case "useCntZero": // always true; its presence lets the solver use the count-zero lemma for counts over this slice
		v := arg(0)
		if len(v.A) != 4 {
			e.fail("useCntZero needs a slice")
		}
		return boolVal("(cntzmark " + v.A[0] + " " + v.A[1] + " " + v.A[2] + ")")
	case "sinceLock": // two-state formula with "old" meaning the state in which this goroutine last acquired the lock
		ne := *e
		if e.st.LockSnap != nil {
			ne.old = e.st.LockSnap
			ne.allocOld = e.tr.cur(e.st.LockSnap, compAlloc)
		}
		if len(n.Args) != 1 {
			e.fail("sinceLock needs one argument")
		}
		return ne.eval(n.Args[0])
	case "wasAllocated":
		v := arg(0)
		return boolVal("(isold " + v.A[0] + " " + e.allocOld + ")")
	case "allocated":
		v := arg(0)
		return boolVal("(< " + v.A[0] + " " + e.tr.cur(e.st, compAlloc) + ")")
	case "errIs":
		return boolVal("(errIs " + arg(0).one() + " " + arg(1).one() + ")")
	case "addr": // address of a struct reached through a pointer-like value
		return intVal(arg(0).A[0])
	case "elemaddr":
		s := arg(0)
		return intVal(e.tr.at(s.A[0], s.A[1], arg(1).one()))
	case "graphTo": // dependency names of a stage (upstream ExecutionGraph.To)
		g, nm := arg(0).one(), arg(1).one()
		ln := "(uf2 31 " + g + " " + nm + ")"
		return &Val{T: types.NewSlice(types.Typ[types.String]), A: []string{"(uf2 30 " + g + " " + nm + ")", "0", ln, ln}}
	case "graphNode": // stage registered under a name (upstream ExecutionGraph.Node)
		t, err := e.tr.W.parseType(e.pkg, "*scheduler.Stage")
		if err != nil {
			e.fail("graphNode: %v", err)
		}
		return &Val{T: t, A: []string{"(uf2 32 " + arg(0).one() + " " + arg(1).one() + ")"}}
	case "pathJoin":
		d := arg(0).one()
		p := "(uf2 23 " + d + " " + arg(1).one() + ")"
		if lit, ok := n.Args[1].(EStr); ok && !strings.HasSuffix(lit.V, ".tmp") && !strings.Contains(d, "q_") {
			e.tr.assumeRaw(and(eq("(uf1 21 "+p+")", d), eq("(uf1 22 "+p+")", "0")))
		}
		return &Val{T: types.Typ[types.String], A: []string{p}}
	case "uf1":
		return intVal("(uf1 " + arg(0).one() + " " + arg(1).one() + ")")
	case "uf2":
		return intVal("(uf2 " + arg(0).one() + " " + arg(1).one() + " " + arg(2).one() + ")")
	case "sameDom":
		a := arg(0)
		b := arg(1)
		return boolVal(eq(sel(e.tr.cur(e.st, e.tr.W.mapDomComp(a.T)), a.one()), sel(e.tr.cur(e.st, e.tr.W.mapDomComp(b.T)), b.one())))
	case "same", "sameExcept", "sameAt":
		pat := e.compPattern(n.Args[0])
		cs := e.tr.resolveComps(pat, e.pkg)
		if len(cs) == 0 {
			e.fail("component pattern %q matches nothing", pat)
		}
		var parts []string
		for _, c := range cs {
			cur := e.tr.cur(e.st, c)
			old := e.tr.cur(e.old, c)
			switch n.Fn {
			case "same":
				parts = append(parts, e.tr.sameOn(cur, old, c.Sort, e.allocOld, nil))
			case "sameAt":
				for i := 1; i < len(n.Args); i++ {
					o := arg(i).A[0]
					parts = append(parts, eq(sel(cur, o), sel(old, o)))
				}
			case "sameExcept":
				var objs []string
				for i := 1; i < len(n.Args); i++ {
					objs = append(objs, arg(i).A[0])
				}
				parts = append(parts, e.tr.sameOn(cur, old, c.Sort, e.allocOld, objs))
			}
		}
		return boolVal(and(parts...))
	case "sameOutside": // sameOutside("pattern", slice): the component is unchanged outside the elements of the slice
		pat := e.compPattern(n.Args[0])
		cs := e.tr.resolveComps(pat, e.pkg)
		sv := arg(1)
		var parts []string
		for _, c := range cs {
			cur := e.tr.cur(e.st, c)
			old := e.tr.cur(e.old, c)
			if cur == old {
				continue
			}
			e.tr.n++
			x := fmt.Sprintf("fo_%d", e.tr.n)
			in := and("(< "+x+" 0)", eq("(elemB "+x+")", sv.A[0]), "(<= "+sv.A[1]+" (elemI "+x+"))", "(< (elemI "+x+") (+ "+sv.A[1]+" "+sv.A[2]+"))")
			parts = append(parts, "(forall (("+x+" Int)) (! (=> "+not(in)+" (= (select "+cur+" "+x+") (select "+old+" "+x+"))) :pattern ((select "+cur+" "+x+"))))")
		}
		return boolVal(and(parts...))
	case "permOf": // permOf(s): the elements of s are a rearrangement of the elements old(s) had (assume-only)
		if !e.assuming {
			e.fail("permOf may only appear in assumed (trusted/extern) postconditions")
		}
		sv := arg(0)
		sl, ok := sv.T.Underlying().(*types.Slice)
		if !ok {
			e.fail("permOf needs a slice")
		}
		e.tr.n++
		pf := fmt.Sprintf("perm!%d", e.tr.n)
		e.tr.emit("(declare-fun " + pf + " (Int) Int)")
		a := fmt.Sprintf("qp_%d", e.tr.n)
		in := func(x string) string {
			return and("(< "+x+" 0)", eq("(elemB "+x+")", sv.A[0]), "(<= "+sv.A[1]+" (elemI "+x+"))", "(< (elemI "+x+") (+ "+sv.A[1]+" "+sv.A[2]+"))")
		}
		var eqs []string
		var pat string
		for _, c := range e.tr.W.cellComps(sl.Elem()) {
			cur := e.tr.cur(e.st, c)
			old := e.tr.cur(e.old, c)
			eqs = append(eqs, eq(sel(cur, a), sel(old, "("+pf+" "+a+")")))
			if pat == "" {
				pat = sel(cur, a)
			}
		}
		// a rearrangement is injective: two positions of the result never stem from the same old position
		b := a + "b"
		inj := "(forall ((" + a + " Int) (" + b + " Int)) (! (=> (and " + in(a) + " " + in(b) + " (= (" + pf + " " + a + ") (" + pf + " " + b + "))) (= " + a + " " + b + ")) :pattern ((" + pf + " " + a + ") (" + pf + " " + b + "))))"
		return boolVal(and("(forall (("+a+" Int)) (! (=> "+in(a)+" (and "+in("("+pf+" "+a+")")+" "+and(eqs...)+")) :pattern ("+pat+")))", inj))
	case "unchangedHeap": // unchangedHeap() or unchangedHeap(Type.field, ...): everything but the listed components
		e.tr.assumingPost = e.assuming
		var except map[string]bool
		for _, a := range n.Args {
			pat := ""
			switch x := a.(type) {
			case EStr:
				pat = x.V
			case ESel:
				if id, ok := x.X.(EIdent); ok {
					pat = id.Name + "." + x.F
				}
			}
			if pat == "" {
				e.fail("unchangedHeap: argument must be Type.field or a quoted component pattern")
			}
			if except == nil {
				except = map[string]bool{}
			}
			for _, c := range e.tr.resolveComps(pat, e.pkg) {
				except[c.Name] = true
			}
		}
		r := e.tr.unchangedHeap(e.st, e.old, except, e.allocOld)
		e.tr.assumingPost = false
		return boolVal(r)
	case "cnt":
		return e.cnt(n)
	case "all", "allIdx", "distinctElems":
		return e.allElems(n)
	}
	// pure spec function
	ps := e.tr.W.C.Pures[pkgKey(e.pkg.Path(), n.Fn)]
	if ps == nil {
		for _, p := range e.tr.W.C.Pures {
			if p.Name == n.Fn {
				ps = p
			}
		}
	}
	if ps != nil {
		if e.depth > 20 {
			e.fail("pure function recursion too deep in %s", n.Fn)
		}
		if len(n.Args) != len(ps.Params) {
			e.fail("%s expects %d arguments", n.Fn, len(ps.Params))
		}
		vars := map[string]*Val{}
		for i, p := range ps.Params {
			a := arg(i)
			if a.T == nil || a.T == types.Typ[types.UntypedNil] || (a.T == tInt && p.Type != "" && p.Type != "int") {
				if t, err := e.tr.W.parseType(e.tr.W.Pkgs[ps.Pkg].Types, p.Type); err == nil {
					a = &Val{T: t, A: a.A, Loc: a.Loc}
				}
			}
			vars[p.Name] = a
		}
		if ps.Opaque && e.st.Formal == nil {
			return e.opaqueCall(ps, vars)
		}
		ne := &Env{tr: e.tr, vars: vars, st: e.st, old: e.old, pkg: e.tr.W.Pkgs[ps.Pkg].Types, depth: e.depth + 1, allocOld: e.allocOld, assuming: e.assuming}
		return ne.eval(ps.Body)
	}
	e.fail("unknown function %s", n.Fn)
	return nil
}

// unchangedHeap: every registered heap component (not locals, not ghosts unless listed) is equal in both states.
// sameOn: the component is unchanged on every object that existed when the old state was taken
// (objects allocated since may differ), except the listed objects.
func (tr *FnCtx) sameOn(cur, old, sort, allocOld string, except []string) string {
	if cur == old {
		return "true"
	}
	if !strings.HasPrefix(sort, "(Array") {
		return eq(cur, old)
	}
	tr.n++
	x := fmt.Sprintf("fx_%d", tr.n)
	cond := isOldAddr(x, allocOld)
	for _, o := range except {
		cond = and(cond, not(eq(x, o)))
	}
	return "(forall ((" + x + " Int)) (! (=> " + cond + " (= (select " + cur + " " + x + ") (select " + old + " " + x + "))) :pattern ((select " + cur + " " + x + "))))"
}

func (tr *FnCtx) unchangedHeap(st, old *State, except map[string]bool, allocOld string) string {
	if st.Gen != old.Gen && !tr.assumingPost {
		// as a proof goal: components that are not registered yet cannot be shown unchanged across a havoc-all
		return "false"
	}
	var parts []string
	for _, k := range sortedKeysS(tr.comps) {
		if strings.HasPrefix(k, "L.") || strings.HasPrefix(k, "$seen") || k == "$alloc" || k == "$pub" || k == "$clock" || k == "$uuidFailed" || k == "$wgTokens" {
			continue
		}
		if except != nil && except[k] {
			continue
		}
		c := Comp{k, tr.comps[k], false}
		parts = append(parts, tr.sameOn(tr.cur(st, c), tr.cur(old, c), c.Sort, allocOld, nil))
	}
	return and(parts...)
}

func sortedKeysS(m map[string]string) []string { return sortedKeys(m) }

// resolveComps maps a pattern from a contract to concrete components.
//
//	PipelineJob.Canceled          field (all atoms with that path prefix) of a struct of the contract's package
//	definition.PipelineDef.Env    field of a struct of another local package
//	mem(T)                        cells of pointee type T
//	map(T)                        domain and values of map type T
//	$ghost
func (tr *FnCtx) resolveComps(pat string, pkg *types.Package) []Comp {
	pat = strings.TrimSpace(pat)
	if strings.HasPrefix(pat, "$") {
		if g, ok := tr.W.C.Ghosts[pat]; ok {
			if g.Array {
				return []Comp{{pat, "(Array Int " + g.Sort + ")", false}}
			}
			return []Comp{{pat, g.Sort, false}}
		}
		switch pat {
		case "$held":
			return []Comp{compHeld}
		case "$clock":
			return []Comp{compClock}
		case "$alloc":
			return []Comp{compAlloc}
		case "$pub":
			return []Comp{compPub}
		case "$stopped":
			return []Comp{compStopped}
		case "$armedDelay":
			return []Comp{compArmedDelay}
		case "$armedAt":
			return []Comp{compArmedAt}
		case "$armedFn":
			return []Comp{compArmedFn}
		case "$logsRemoved":
			return []Comp{compLogsRemoved}
		case "$uuidFailed":
			return []Comp{compUUIDFailed}
		case "$wgWaited":
			return []Comp{compWgWaited}
		case "$wgTokens":
			return []Comp{compWgTokens}
		case "$fsState":
			return []Comp{compFsState}
		case "$fsData":
			return []Comp{compFsData}
		case "$pathOpen":
			return []Comp{compPathOpen}
		case "$filePath":
			return []Comp{compFilePath}
		case "$encFile":
			return []Comp{compEncFile}
		case "$decodedFrom":
			return []Comp{compDecoded}
		}
		return nil
	}
	if strings.HasPrefix(pat, "mem(") && strings.HasSuffix(pat, ")") {
		t, err := tr.W.parseType(pkg, pat[4:len(pat)-1])
		if err != nil {
			panic(fmt.Sprintf("spec: %v", err))
		}
		return tr.W.cellComps(t)
	}
	if strings.HasPrefix(pat, "map(") && strings.HasSuffix(pat, ")") {
		t, err := tr.W.parseType(pkg, pat[4:len(pat)-1])
		if err != nil {
			panic(fmt.Sprintf("spec: %v", err))
		}
		return append([]Comp{tr.W.mapDomComp(t)}, tr.W.mapValComps(t)...)
	}
	if strings.HasPrefix(pat, "mapdom(") && strings.HasSuffix(pat, ")") {
		t, err := tr.W.parseType(pkg, pat[7:len(pat)-1])
		if err != nil {
			panic(fmt.Sprintf("spec: %v", err))
		}
		return []Comp{tr.W.mapDomComp(t)}
	}
	// struct field: Type.path or pkg.Type.path
	parts := strings.Split(pat, ".")
	for split := 1; split <= 2 && split < len(parts); split++ {
		tn := strings.Join(parts[:split], ".")
		t, err := tr.W.parseType(pkg, tn)
		if err != nil {
			continue
		}
		if _, ok := structOf(t); !ok {
			continue
		}
		path := strings.Join(parts[split:], ".")
		var out []Comp
		if tr.W.isOpaqueNamed(t) {
			// struct of another module: its fields are components when accessed through pointers
			st := t.Underlying().(*types.Struct)
			for i := 0; i < st.NumFields(); i++ {
				f := st.Field(i)
				if path == "*" || f.Name() == path {
					out = append(out, tr.W.fieldComps(t, f.Name(), f.Type())...)
				}
			}
			if len(out) > 0 {
				return out
			}
			continue
		}
		for _, a := range tr.W.flatten(t) {
			if path == "*" || a.Path == path || strings.HasPrefix(a.Path, path+".") || strings.HasPrefix(a.Path, path+"#") {
				out = append(out, Comp{"F." + tr.W.typeKey(t) + "." + a.Path, "(Array Int " + a.Sort + ")", false})
			}
		}
		if len(out) > 0 {
			return out
		}
	}
	return nil
}

// cnt(s, P): number of elements of slice s satisfying the pure predicate P.
// Encoded as a recursive SMT function over the heap components P reads.
func (e *Env) cnt(n ECall) *Val {
	if len(n.Args) != 2 {
		e.fail("cnt(slice, predicate)")
	}
	s := e.eval(n.Args[0])
	sl, ok := s.T.Underlying().(*types.Slice)
	if !ok {
		e.fail("cnt needs a slice")
	}
	id, ok := n.Args[1].(EIdent)
	if !ok {
		e.fail("cnt needs a predicate name")
	}
	key := "cnt_" + id.Name + "_" + sanitize(e.tr.W.typeKey(sl.Elem()))
	info := e.tr.cntFuncs[key]
	if info == nil {
		// evaluate predicate body over formal heap components
		fst := &State{Comps: map[string]string{}, Gen: -1, Formal: map[string]string{}}
		var elemVal *Val
		elemT := sl.Elem()
		addr := "(at b o (- n 1))"
		fe := &Env{tr: e.tr, st: fst, old: fst, pkg: e.pkg, vars: map[string]*Val{}, allocOld: "0"}
		if _, isStruct := structOf(elemT); isStruct && !e.tr.W.isOpaqueNamed(elemT) {
			elemVal = &Val{T: types.NewPointer(elemT), A: []string{addr}}
		} else {
			elemVal = fe.loadCell(fst, elemT, addr)
		}
		body := fe.call(ECall{Fn: id.Name, Args: []Expr{EIdent{"$cntelem"}}}.withVar(fe, "$cntelem", elemVal))
		var formals []string
		var actualComps []Comp
		for _, name := range fst.FormalOrder {
			formals = append(formals, "("+fst.Formal[name]+" "+e.tr.comps[name]+")")
			actualComps = append(actualComps, Comp{name, e.tr.comps[name], false})
		}
		var fargs []string
		for _, name := range fst.FormalOrder {
			fargs = append(fargs, fst.Formal[name])
		}
		fname := sym(key)
		rec := fmt.Sprintf("(define-fun-rec %s (%s (b Int) (o Int) (n Int)) Int (ite (<= n 0) 0 (+ (%s %s b o (- n 1)) (ite %s 1 0))))",
			fname, strings.Join(formals, " "), fname, strings.Join(fargs, " "), body.one())
		e.tr.emit(rec)
		// frame lemma (proved once by induction, see lemma/cntFrame): two heaps that agree on the predicate for the
		// first n elements give the same count
		{
			var d1, d2, a1, a2 []string
			sub1 := body.one()
			sub2 := body.one()
			for _, name := range fst.FormalOrder {
				f := fst.Formal[name]
				d1 = append(d1, "("+f+"x "+e.tr.comps[name]+")")
				d2 = append(d2, "("+f+"y "+e.tr.comps[name]+")")
				a1 = append(a1, f+"x")
				a2 = append(a2, f+"y")
			}
			ren := func(s, suffix string) string {
				// formals are fc<k>; rename whole tokens
				for i := len(fst.FormalOrder) - 1; i >= 0; i-- {
					f := fst.Formal[fst.FormalOrder[i]]
					s = replaceToken(s, f, f+suffix)
				}
				return s
			}
			sub1 = replaceToken(replaceToken(replaceToken(ren(sub1, "x"), "b", "b1"), "o", "o1"), "n", "(+ i 1)")
			sub2 = replaceToken(replaceToken(replaceToken(ren(sub2, "y"), "b", "b2"), "o", "o2"), "n", "(+ i 1)")
			pre := "(forall ((i Int)) (=> (and (<= 0 i) (< i n)) (= " + sub1 + " " + sub2 + ")))"
			c1 := "(" + fname + " " + strings.Join(a1, " ") + " b1 o1 n)"
			c2 := "(" + fname + " " + strings.Join(a2, " ") + " b2 o2 n)"
			ax := "(forall (" + strings.Join(d1, " ") + " " + strings.Join(d2, " ") + " (b1 Int) (o1 Int) (b2 Int) (o2 Int) (n Int)) (! (=> " + pre + " (= " + c1 + " " + c2 + ")) :pattern (" + c1 + " " + c2 + ")))"
			e.tr.emit("(assert " + ax + ")")
			e.tr.lemmaVCs = append(e.tr.lemmaVCs, lemmaVC{name: "lemma/cntFrame[" + id.Name + "]", rec: rec,
				decls: strings.Join(d1, " ") + " " + strings.Join(d2, " "), pre: pre, c1: c1, c2: c2, fname: fname, a1: strings.Join(a1, " "), a2: strings.Join(a2, " ")})
		}
		// zero lemma (proved once by induction, see lemma/cntZero): no element of the first n satisfies the
		// predicate ==> the count is 0; stated per count term as "count is 0 or some index satisfies the predicate"
		{
			var d1, a1 []string
			for _, name := range fst.FormalOrder {
				f := fst.Formal[name]
				d1 = append(d1, "("+f+" "+e.tr.comps[name]+")")
				a1 = append(a1, f)
			}
			pi := replaceToken(body.one(), "n", "(+ i 1)")
			pre := "(forall ((i Int)) (=> (and (<= 0 i) (< i n)) (not " + pi + ")))"
			c1 := "(" + fname + " " + strings.Join(a1, " ") + " b o n)"
			// triggered only where a specification asks for it (useCntZero(s) puts the marker term into the query):
			// instantiating it for every count term makes the slow queries of ScheduleAsync three times slower
			ax := "(forall (" + strings.Join(d1, " ") + " (b Int) (o Int) (n Int)) (! (=> " + pre + " (= " + c1 + " 0)) :pattern (" + c1 + " (cntzmark b o n))))"
			e.tr.emit("(assert " + ax + ")")
			var cmds []string
			cmds = append(cmds, rec)
			for _, name := range fst.FormalOrder {
				cmds = append(cmds, "(declare-const "+fst.Formal[name]+" "+e.tr.comps[name]+")")
			}
			cmds = append(cmds, "(declare-const b Int)", "(declare-const o Int)", "(declare-const n Int)", "(assert (>= n 0))", "(assert "+pre+")",
				"(assert (=> (> n 0) (= ("+fname+" "+strings.Join(a1, " ")+" b o (- n 1)) 0)))")
			e.tr.lemmaVCs = append(e.tr.lemmaVCs, lemmaVC{name: "lemma/cntZero[" + id.Name + "]", custom: cmds, goal: "(= " + c1 + " 0)",
				src: "count zero lemma by induction on n: if none of the first n elements satisfies the predicate the count is 0"})
		}
		info = &cntInfo{name: fname, comps: actualComps}
		if e.tr.cntFuncs == nil {
			e.tr.cntFuncs = map[string]*cntInfo{}
		}
		e.tr.cntFuncs[key] = info
	}
	var actuals []string
	for _, c := range info.comps {
		actuals = append(actuals, e.tr.cur(e.st, c))
	}
	return intVal("(" + info.name + " " + strings.Join(actuals, " ") + " " + s.A[0] + " " + s.A[1] + " " + s.A[2] + ")")
}

// opaqueCall: application of an opaque predicate. The predicate becomes an SMT function of its (scalar)
// arguments and of the heap components its body reads; its definition is one axiom triggered on the application.
func (e *Env) opaqueCall(ps *PureSpec, vars map[string]*Val) *Val {
	key := "opq_" + ps.Name
	info := e.tr.cntFuncs[key]
	if info == nil {
		fst := &State{Comps: map[string]string{}, Gen: -1, Formal: map[string]string{}}
		fvars := map[string]*Val{}
		var pdecl, pargs []string
		for i, p := range ps.Params {
			a := vars[p.Name]
			if len(a.A) != 1 {
				e.fail("opaque %s: parameter %s is not a scalar", ps.Name, p.Name)
			}
			nm := fmt.Sprintf("op%d", i)
			fvars[p.Name] = &Val{T: a.T, A: []string{nm}}
			pdecl = append(pdecl, "("+nm+" Int)")
			pargs = append(pargs, nm)
		}
		fe := &Env{tr: e.tr, st: fst, old: fst, pkg: e.tr.W.Pkgs[ps.Pkg].Types, vars: fvars, allocOld: "0", depth: e.depth + 1}
		body := fe.eval(ps.Body).one()
		var sorts []string
		var comps []Comp
		for _, name := range fst.FormalOrder {
			pdecl = append(pdecl, "("+fst.Formal[name]+" "+e.tr.comps[name]+")")
			pargs = append(pargs, fst.Formal[name])
			sorts = append(sorts, e.tr.comps[name])
			comps = append(comps, Comp{name, e.tr.comps[name], false})
		}
		fname := sym(key)
		var dom []string
		for range ps.Params {
			dom = append(dom, "Int")
		}
		dom = append(dom, sorts...)
		e.tr.emit("(declare-fun " + fname + " (" + strings.Join(dom, " ") + ") Bool)")
		app := "(" + fname + " " + strings.Join(pargs, " ") + ")"
		e.tr.emit("(assert (forall (" + strings.Join(pdecl, " ") + ") (! (= " + app + " " + body + ") :pattern (" + app + "))))")
		info = &cntInfo{name: fname, comps: comps}
		if e.tr.cntFuncs == nil {
			e.tr.cntFuncs = map[string]*cntInfo{}
		}
		e.tr.cntFuncs[key] = info
	}
	var actuals []string
	for _, p := range ps.Params {
		actuals = append(actuals, vars[p.Name].A[0])
	}
	for _, c := range info.comps {
		actuals = append(actuals, e.tr.cur(e.st, c))
	}
	return boolVal("(" + info.name + " " + strings.Join(actuals, " ") + ")")
}

type cntInfo struct {
	name  string
	comps []Comp
}

// helper to evaluate a call with one extra variable bound
func (c ECall) withVar(e *Env, name string, v *Val) ECall {
	e.vars[name] = v
	return c
}

// all(s, P, extra...): every element of slice s satisfies the pure predicate P(elem, extra...).
// distinctElems(s): the elements of s are pairwise distinct.
// Both quantify over element ADDRESSES (not indices), which keeps the facts usable across reslicing.
func (e *Env) allElems(n ECall) *Val {
	s := e.eval(n.Args[0])
	sl, ok := s.T.Underlying().(*types.Slice)
	if !ok || len(s.A) != 4 {
		e.fail("%s needs a slice", n.Fn)
	}
	inRange := func(a string) string {
		return and("(< "+a+" 0)", eq("(elemB "+a+")", s.A[0]), "(<= "+s.A[1]+" (elemI "+a+"))", "(< (elemI "+a+") (+ "+s.A[1]+" "+s.A[2]+"))")
	}
	elemT := sl.Elem()
	_, isStruct := structOf(elemT)
	isStruct = isStruct && !e.tr.W.isOpaqueNamed(elemT)
	mk := func(a string) (*Val, string) {
		if isStruct {
			return &Val{T: types.NewPointer(elemT), A: []string{a}}, "(elemI " + a + ")"
		}
		v := e.loadCell(e.st, elemT, a)
		return v, v.A[0]
	}
	e.tr.n++
	a := fmt.Sprintf("qa_%d", e.tr.n)
	if n.Fn == "distinctElems" {
		e.tr.n++
		b := fmt.Sprintf("qb_%d", e.tr.n)
		va, pa := mk(a)
		vb, pb := mk(b)
		var eqs []string
		for i := range va.A {
			eqs = append(eqs, eq(va.A[i], vb.A[i]))
		}
		body := implies(and(inRange(a), inRange(b), not(eq(a, b))), not(and(eqs...)))
		return boolVal("(forall ((" + a + " Int) (" + b + " Int)) (! " + body + " :pattern (" + pa + " " + pb + ")))")
	}
	id, ok := n.Args[1].(EIdent)
	if !ok {
		e.fail("all(slice, predicate, extra...)")
	}
	va, pa := mk(a)
	args := []Expr{EIdent{"$allelem"}}
	vars := map[string]*Val{"$allelem": va}
	if n.Fn == "allIdx" {
		args = append(args, EIdent{"$allidx"})
		vars["$allidx"] = intVal("(- (elemI " + a + ") " + s.A[1] + ")")
	}
	args = append(args, n.Args[2:]...)
	ne := e.with(vars)
	body := ne.call(ECall{Fn: id.Name, Args: args})
	return boolVal("(forall ((" + a + " Int)) (! " + implies(inRange(a), body.one()) + " :pattern (" + pa + ")))")
}

type lemmaVC struct {
	name, rec, decls, pre, c1, c2, fname, a1, a2 string
	custom                                       []string // complete command list (other lemma shapes)
	goal, src                                    string
}

// replaceToken replaces whole-token occurrences (delimited by space or parentheses) of old by new.
func replaceToken(s, old, nw string) string {
	var sb strings.Builder
	i := 0
	for i < len(s) {
		if strings.HasPrefix(s[i:], old) {
			before := i == 0 || s[i-1] == ' ' || s[i-1] == '('
			j := i + len(old)
			after := j >= len(s) || s[j] == ' ' || s[j] == ')'
			if before && after {
				sb.WriteString(nw)
				i = j
				continue
			}
		}
		sb.WriteByte(s[i])
		i++
	}
	return sb.String()
}

// extEq: structural ("same configuration") equality, generated by walking the Go type:
// basic values ==; pointers both nil or both non-nil with extEq pointees; slices same length and
// extEq elements; maps same key set and extEq values; structs field by field. A field added to a
// struct later is included automatically.
func (e *Env) extEq(a, b *Val, depth int) string {
	if depth > 6 {
		e.fail("extEq: type nesting too deep")
	}
	t := a.T
	if t == nil {
		e.fail("extEq of untyped value")
	}
	w := e.tr.W
	if w.isOpaqueNamed(t) {
		return eq(a.one(), b.one())
	}
	switch u := t.Underlying().(type) {
	case *types.Basic, *types.Interface, *types.Signature, *types.Chan:
		return eq(a.one(), b.one())
	case *types.Pointer:
		pa, pb := a.one(), b.one()
		if _, isStruct := structOf(u.Elem()); isStruct && !w.isOpaqueNamed(u.Elem()) {
			sa := &Val{T: u.Elem()}
			sb := &Val{T: u.Elem()}
			for _, c := range w.cellComps(u.Elem()) {
				sa.A = append(sa.A, sel(e.tr.cur(e.st, c), pa))
				sb.A = append(sb.A, sel(e.tr.cur(e.st, c), pb))
			}
			return and(eq(eq(pa, "0"), eq(pb, "0")), implies(and(not(eq(pa, "0")), not(eq(pb, "0"))), e.extEq(sa, sb, depth+1)))
		}
		va := e.loadCell(e.st, u.Elem(), pa)
		vb := e.loadCell(e.st, u.Elem(), pb)
		return and(eq(eq(pa, "0"), eq(pb, "0")), implies(and(not(eq(pa, "0")), not(eq(pb, "0"))), e.extEq(va, vb, depth+1)))
	case *types.Slice:
		e.tr.n++
		i := fmt.Sprintf("qe_%d", e.tr.n)
		elem := func(v *Val) *Val {
			addr := e.tr.at(v.A[0], v.A[1], i)
			if _, isStruct := structOf(u.Elem()); isStruct && !w.isOpaqueNamed(u.Elem()) {
				r := &Val{T: u.Elem()}
				for _, c := range w.cellComps(u.Elem()) {
					r.A = append(r.A, sel(e.tr.cur(e.st, c), addr))
				}
				return r
			}
			return e.loadCell(e.st, u.Elem(), addr)
		}
		body := e.extEq(elem(a), elem(b), depth+1)
		return and(eq(a.A[2], b.A[2]), "(forall (("+i+" Int)) (=> (and (<= 0 "+i+") (< "+i+" "+a.A[2]+")) "+body+"))")
	case *types.Map:
		e.tr.n++
		k := fmt.Sprintf("qk_%d", e.tr.n)
		va, ina := e.mapGetPure(e.st, t, a.one(), k)
		vb, inb := e.mapGetPure(e.st, t, b.one(), k)
		body := and(eq(ina, inb), implies(ina, e.extEq(va, vb, depth+1)))
		return "(forall ((" + k + " Int)) " + body + ")"
	case *types.Struct:
		var parts []string
		off := 0
		for f := 0; f < u.NumFields(); f++ {
			ft := u.Field(f).Type()
			n := len(w.flatten(ft))
			parts = append(parts, e.extEq(&Val{T: ft, A: a.A[off : off+n]}, &Val{T: ft, A: b.A[off : off+n]}, depth+1))
			off += n
		}
		return and(parts...)
	}
	e.fail("extEq: unsupported type %v", t)
	return ""
}
