package prunner

// Bounded stand-in for the graph-ordering clause of C02/C15 (NOT a proof): exhaustive enumeration of all
// directed graphs (self-loops included) on n <= N named tasks (N <= 4; sampled above), and of all labelled DAGs on
// 5..VERIF_BOUND_DAGN named tasks, run through the REAL buildJobTasks and buildPipelineGraph. Injected into the package with `go test -overlay`; nothing is written into the repository.

import (
	"fmt"
	"os"
	"runtime"
	"sort"
	"strconv"
	"sync"
	"sync/atomic"
	"testing"

	"github.com/gofrs/uuid"

	"github.com/Flowpack/prunner/definition"
)

func verifAcyclic(n int, adj uint64) bool {
	// Kahn on bitsets: edge i->j means task i depends on task j; bit index i*n+j
	indeg := make([]int, n)
	for i := 0; i < n; i++ {
		for j := 0; j < n; j++ {
			if adj&(1<<uint(i*n+j)) != 0 {
				indeg[i]++
			}
		}
	}
	done := make([]bool, n)
	for k := 0; k < n; k++ {
		found := -1
		for i := 0; i < n; i++ {
			if !done[i] && indeg[i] == 0 {
				found = i
				break
			}
		}
		if found < 0 {
			return false
		}
		done[found] = true
		for i := 0; i < n; i++ {
			if !done[i] && adj&(1<<uint(i*n+found)) != 0 {
				indeg[i]--
			}
		}
	}
	return true
}

func TestVerifBoundedGraphOrder(t *testing.T) {
	maxN := 4
	if s := os.Getenv("VERIF_BOUND_N"); s != "" {
		maxN, _ = strconv.Atoi(s)
	}
	names := []string{"a", "b", "c", "d", "e", "f"}
	id := uuid.Must(uuid.NewV4())
	var total, acyclicN, cyclicN int64
	var failMu sync.Mutex
	var failures []string
	fail := func(msg string) {
		failMu.Lock()
		if len(failures) < 5 {
			failures = append(failures, msg)
		}
		failMu.Unlock()
	}
	sample := uint64(0)
	if s := os.Getenv("VERIF_BOUND_SAMPLE"); s != "" {
		v, _ := strconv.Atoi(s)
		sample = uint64(v)
	}
	seed := uint64(1)
	if s := os.Getenv("VERIF_SEED"); s != "" {
		v, _ := strconv.Atoi(s)
		seed = uint64(v)*2654435761 + 1
	}
	checkGraph := func(n int, adj uint64) {
		atomic.AddInt64(&total, 1)
		tasks := map[string]definition.TaskDef{}
		for i := 0; i < n; i++ {
			var deps []string
			for j := 0; j < n; j++ {
				if adj&(1<<uint(i*n+j)) != 0 {
					deps = append(deps, names[j])
				}
			}
			tasks[names[i]] = definition.TaskDef{Script: []string{"true"}, DependsOn: deps}
		}
		jt := buildJobTasks(tasks)
		desc := fmt.Sprintf("n=%d adj=%b", n, adj)
		// permutation
		if len(jt) != n {
			fail(desc + ": task list length")
			return
		}
		got := make([]string, n)
		pos := map[string]int{}
		for k, x := range jt {
			got[k] = x.Name
			pos[x.Name] = k
		}
		srt := append([]string{}, got...)
		sort.Strings(srt)
		for k := 0; k < n; k++ {
			if srt[k] != names[k] {
				fail(desc + ": not a permutation of the tasks")
			}
		}
		// deterministic
		jt2 := buildJobTasks(tasks)
		for k := range jt {
			if jt2[k].Name != jt[k].Name {
				fail(desc + ": order depends on map iteration order")
				break
			}
		}
		_, err := buildPipelineGraph(id, jt, nil)
		if verifAcyclic(n, adj) {
			atomic.AddInt64(&acyclicN, 1)
			for _, x := range jt {
				for _, d := range x.DependsOn {
					if pos[d] >= pos[x.Name] {
						fail(desc + ": task " + x.Name + " listed before its dependency " + d)
					}
				}
			}
			if err != nil {
				fail(desc + ": acyclic graph refused: " + err.Error())
			}
		} else {
			atomic.AddInt64(&cyclicN, 1)
			if err == nil {
				fail(desc + ": cyclic graph accepted")
			}
		}
	}
	for n := 0; n <= maxN; n++ {
		bits := uint(n * n)
		count := uint64(1) << bits
		sampled := n > 4 && sample > 0
		if sampled {
			count = sample
		}
		mask := (uint64(1) << bits) - 1
		_ = mask
		workers := runtime.NumCPU()
		var wg sync.WaitGroup
		var next uint64
		for w := 0; w < workers; w++ {
			wg.Add(1)
			go func() {
				defer wg.Done()
				for {
					start := atomic.AddUint64(&next, 4096) - 4096
					if start >= count {
						return
					}
					end := start + 4096
					if end > count {
						end = count
					}
					for idx := start; idx < end; idx++ {
						adj := idx
						if sampled {
							// splitmix64 of (seed, idx): a deterministic pseudo-random graph; sparse-ish so that DAGs occur
							z := seed + idx*0x9E3779B97F4A7C15
							z = (z ^ (z >> 30)) * 0xBF58476D1CE4E5B9
							z = (z ^ (z >> 27)) * 0x94D049BB133111EB
							z ^= z >> 31
							z2 := z*0xD6E8FEB86659FD93 + 12345
							adj = z & z2 & mask
						}
						checkGraph(n, adj)
					}
				}
			}()
		}
		wg.Wait()
	}

	// all labelled DAGs (every assignment of dependency sets that has no cycle) on 4 < n <= dagN named tasks (the loop above is exhaustive only up to 4),
	// enumerated by backtracking over the dependency set of one task after the other (a partial graph with a cycle is
	// cut off: adding edges never removes a cycle)
	dagN := 4
	if s := os.Getenv("VERIF_BOUND_DAGN"); s != "" {
		dagN, _ = strconv.Atoi(s)
	}
	var dagTotal int64
	for n := 5; n <= dagN; n++ {
		type item struct{ adj uint64 }
		work := make(chan item, 1024)
		var wg sync.WaitGroup
		var rec func(i int, adj uint64, emit func(uint64), stop int)
		rec = func(i int, adj uint64, emit func(uint64), stop int) {
			if i == stop {
				emit(adj)
				return
			}
			for m := uint64(0); m < 1<<uint(n); m++ {
				if m&(1<<uint(i)) != 0 {
					continue
				}
				a := adj | m<<uint(i*n)
				if !verifAcyclic(n, a) {
					continue
				}
				rec(i+1, a, emit, stop)
			}
		}
		for w := 0; w < runtime.NumCPU(); w++ {
			wg.Add(1)
			go func() {
				defer wg.Done()
				for it := range work {
					rec(2, it.adj, func(a uint64) {
						atomic.AddInt64(&dagTotal, 1)
						checkGraph(n, a)
					}, n)
				}
			}()
		}
		rec(0, 0, func(a uint64) { work <- item{a} }, 2)
		close(work)
		wg.Wait()
	}
	fmt.Printf("BOUNDED maxN=%d graphs=%d acyclic=%d cyclic=%d dagN=%d dags=%d failures=%d\n", maxN, total, acyclicN, cyclicN, dagN, dagTotal, len(failures))
	for _, f := range failures {
		fmt.Println("BOUNDED-FAIL " + f)
	}
	if len(failures) > 0 {
		t.Fail()
	}
}
