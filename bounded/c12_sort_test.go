package prunner

// Bounded stand-in for the ranking step of retention (C12) (NOT a proof): the contract of
// (pipelineJobBy).Sort — "for byCreationTimeDesc the result is a rearrangement of the input in newest-first
// order" — is trusted by the deductive proof of SaveToStore, because sort.Sort and the function-typed field of
// pipelineJobsSorter are outside the verifier's subset. Here the REAL pipelineJobBy(byCreationTimeDesc).Sort is
// run on every sequence of creation times from {0..n-1} of length n <= N (ties included).
// Injected into the package with `go test -overlay`; nothing is written into the repository.

import (
	"fmt"
	"math/rand"
	"os"
	"strconv"
	"testing"
	"time"
)

func TestVerifBoundedSortDesc(t *testing.T) {
	maxN := 6
	if v, err := strconv.Atoi(os.Getenv("VERIF_BOUND_N")); err == nil && v > 0 {
		maxN = v
	}
	base := time.Date(2021, 1, 1, 0, 0, 0, 0, time.UTC)
	cases := 0
	fails := 0
	for n := 0; n <= maxN; n++ {
		total := 1
		for i := 0; i < n; i++ {
			total *= n
		}
		if n == 0 {
			total = 1
		}
		for code := 0; code < total; code++ {
			jobs := make([]*PipelineJob, n)
			orig := make([]*PipelineJob, n)
			c := code
			for i := 0; i < n; i++ {
				jobs[i] = &PipelineJob{Created: base.Add(time.Duration(c%n) * time.Minute)}
				orig[i] = jobs[i]
				c /= n
			}
			pipelineJobBy(byCreationTimeDesc).Sort(jobs)
			cases++
			ok := len(jobs) == n
			for i := 1; ok && i < n; i++ {
				if jobs[i-1].Created.Before(jobs[i].Created) {
					ok = false
				}
			}
			// rearrangement: every input job occurs exactly once
			seen := map[*PipelineJob]int{}
			for _, j := range jobs {
				seen[j]++
			}
			for _, j := range orig {
				if seen[j] != 1 {
					ok = false
				}
			}
			if !ok {
				fails++
				if fails <= 5 {
					var in, out []int
					for _, j := range orig {
						in = append(in, int(j.Created.Sub(base)/time.Minute))
					}
					for _, j := range jobs {
						if j == nil {
							out = append(out, -1)
							continue
						}
						out = append(out, int(j.Created.Sub(base)/time.Minute))
					}
					fmt.Printf("BOUNDED-FAIL creation times %v ranked as %v (not newest first, or not a rearrangement)\n", in, out)
				}
			}
		}
	}
	// sampled longer sequences (sort.Sort switches from insertion sort to pdqsort above 12 elements)
	if sample, err := strconv.Atoi(os.Getenv("VERIF_BOUND_SAMPLE")); err == nil && sample > 0 {
		seed := int64(1)
		if v, err := strconv.ParseInt(os.Getenv("VERIF_SEED"), 10, 64); err == nil {
			seed = v
		}
		rng := rand.New(rand.NewSource(seed))
		for it := 0; it < sample; it++ {
			n := 13 + rng.Intn(52)
			k := 1 + rng.Intn(n)
			jobs := make([]*PipelineJob, n)
			seen := map[*PipelineJob]int{}
			for i := range jobs {
				jobs[i] = &PipelineJob{Created: base.Add(time.Duration(rng.Intn(k)) * time.Minute)}
				seen[jobs[i]] = 0
			}
			pipelineJobBy(byCreationTimeDesc).Sort(jobs)
			cases++
			ok := true
			for i := 1; i < n; i++ {
				if jobs[i-1].Created.Before(jobs[i].Created) {
					ok = false
				}
			}
			for _, j := range jobs {
				if c, known := seen[j]; !known || c != 0 {
					ok = false
				}
				seen[j]++
			}
			if !ok {
				fails++
				if fails <= 5 {
					fmt.Printf("BOUNDED-FAIL sampled sequence of length %d with %d distinct times (seed %d, iteration %d) ranked wrongly\n", n, k, seed, it)
				}
			}
		}
	}
	fmt.Printf("BOUNDED maxN=%d cases=%d failures=%d\n", maxN, cases, fails)
	if fails > 0 {
		t.Fatalf("%d of %d sequences ranked wrongly", fails, cases)
	}
}
