// mutate: enumerate small syntactic mutations of one Go source file (auxiliary tool used to look for holes in the
// contracts: a mutant that compiles, passes the repository's tests and discharges every obligation is either
// equivalent or something no contract pins down). Not part of any check.
//
//	mutate -file prunner.go -list            number of mutation sites
//	mutate -file prunner.go -n 17 -o out.go  write mutant number 17
package main

import (
	"bytes"
	"flag"
	"fmt"
	"go/ast"
	"go/parser"
	"go/printer"
	"go/token"
	"os"
)

type site struct {
	desc  string
	apply func()
}

func main() {
	file := flag.String("file", "", "source file")
	n := flag.Int("n", -1, "mutant number")
	out := flag.String("o", "", "output file")
	list := flag.Bool("list", false, "print number of sites")
	flag.Parse()
	fset := token.NewFileSet()
	f, err := parser.ParseFile(fset, *file, nil, parser.ParseComments)
	if err != nil {
		fmt.Fprintln(os.Stderr, err)
		os.Exit(2)
	}
	var sites []site
	swap := map[token.Token]token.Token{token.EQL: token.NEQ, token.NEQ: token.EQL, token.LSS: token.LEQ, token.LEQ: token.LSS,
		token.GTR: token.GEQ, token.GEQ: token.GTR, token.LAND: token.LOR, token.LOR: token.LAND, token.ADD: token.SUB, token.SUB: token.ADD}
	pos := func(p token.Pos) string { return fset.Position(p).String() }
	ast.Inspect(f, func(nd ast.Node) bool {
		switch x := nd.(type) {
		case *ast.IfStmt:
			sites = append(sites, site{"negate if condition at " + pos(x.Pos()), func() {
				x.Cond = &ast.UnaryExpr{Op: token.NOT, X: &ast.ParenExpr{X: x.Cond}}
			}})
		case *ast.BinaryExpr:
			if t, ok := swap[x.Op]; ok {
				sites = append(sites, site{fmt.Sprintf("%s -> %s at %s", x.Op, t, pos(x.OpPos)), func() { x.Op = t }})
			}
		case *ast.BlockStmt:
			for i, st := range x.List {
				i, st := i, st
				del := false
				switch s := st.(type) {
				case *ast.ExprStmt:
					if _, ok := s.X.(*ast.CallExpr); ok {
						del = true
					}
				case *ast.AssignStmt:
					del = s.Tok != token.DEFINE
				case *ast.IncDecStmt, *ast.DeferStmt, *ast.GoStmt:
					del = true
				}
				if del {
					sites = append(sites, site{"delete statement at " + pos(st.Pos()), func() {
						x.List = append(append([]ast.Stmt{}, x.List[:i]...), x.List[i+1:]...)
					}})
				}
			}
		case *ast.Ident:
			if x.Name == "true" || x.Name == "false" {
				sites = append(sites, site{x.Name + " flipped at " + pos(x.Pos()), func() {
					if x.Name == "true" {
						x.Name = "false"
					} else {
						x.Name = "true"
					}
				}})
			}
		}
		return true
	})
	if *list {
		fmt.Println(len(sites))
		return
	}
	if *n < 0 || *n >= len(sites) {
		fmt.Fprintln(os.Stderr, "no such mutant")
		os.Exit(2)
	}
	sites[*n].apply()
	var buf bytes.Buffer
	if err := printer.Fprint(&buf, fset, f); err != nil {
		fmt.Fprintln(os.Stderr, err)
		os.Exit(2)
	}
	if err := os.WriteFile(*out, buf.Bytes(), 0644); err != nil {
		fmt.Fprintln(os.Stderr, err)
		os.Exit(2)
	}
	fmt.Println(sites[*n].desc)
}
