#!/bin/bash
# usage: run_one.sh <file-rel> <n> <pkgprefix> <contracts-dir>   — one mutant: build, tests, obligations of its package
f=$1; n=$2; pk=$3; cdir=$4
export GOFLAGS=-mod=mod GOPROXY=off GOSUMDB=off GOTOOLCHAIN=local
d=$(mktemp -d /tmp/mut.XXXXXX)
cp -r /tmp/mut_pristine/. $d/
desc=$(/tmp/mutate -file /tmp/mut_pristine/$f -n $n -o $d/$f 2>&1) || { echo "$f $n | nosuch"; rm -rf $d; exit; }
cd $d
if ! go build ./... >/dev/null 2>&1; then echo "$f $n | $desc | build-fails"; rm -rf $d; exit; fi
if ! timeout 180 go test -vet=off -count=1 ./... >/dev/null 2>&1; then echo "$f $n | $desc | killed-by-tests"; rm -rf $d; exit; fi
fails=$(timeout 600 /verif/bin/govc dump --repo $d --func "$pk" --timeout 20 2>&1 | grep "^FAIL" | awk '{print $2}' | sort -u | head -4 | tr '\n' ' ')
if [ -z "$fails" ]; then echo "$f $n | $desc | SURVIVES"; else echo "$f $n | $desc | caught: $fails"; fi
rm -rf $d
